(** Proofs about the concurrent insert-only hash map model (HashMapDefs.v). *)
From SV Require Import HashMapDefs.
From Coq Require Import Lia Permutation.
Require Import ZifyBool ZifyNat ZifyN.
Arguments N.eqb : simpl never.
Arguments N.leb : simpl never.
Arguments N.ltb : simpl never.
Arguments N.modulo : simpl never.
Arguments N.succ : simpl never.
Arguments N.to_nat : simpl never.

(** * List utilities *)

Lemma length_setn {A} (l : list A) i v : length (setn l i v) = length l.
Proof. revert i; induction l; intros [|i]; simpl; auto. Qed.

Lemma nth_setn_eq {A} (l : list A) i v d : i < length l -> nth i (setn l i v) d = v.
Proof. revert i; induction l; intros [|i]; simpl; intros; try lia; auto. apply IHl. lia. Qed.

Lemma nth_setn_neq {A} (l : list A) i j v d : i <> j -> nth j (setn l i v) d = nth j l d.
Proof.
  revert i j; induction l; intros [|i] [|j]; simpl; intros; try lia; auto.
Qed.

Lemma nth_setn {A} (l : list A) i j v d :
  nth j (setn l i v) d = if (Nat.eqb i j && Nat.ltb j (length l))%bool then v else nth j l d.
Proof.
  destruct (Nat.eqb i j) eqn:E; simpl.
  - apply Nat.eqb_eq in E. subst. destruct (Nat.ltb j (length l)) eqn:L.
    + apply nth_setn_eq. lia.
    + rewrite !nth_overflow; auto; rewrite ?length_setn; lia.
  - apply nth_setn_neq. lia.
Qed.

Lemma setn_overflow {A} (l : list A) i v : length l <= i -> setn l i v = l.
Proof. revert i; induction l; intros [|i]; simpl; intros; try lia; auto. f_equal. apply IHl. lia. Qed.

Lemma nth_error_nth_lt {A} (l : list A) t x d : nth_error l t = Some x -> nth t l d = x /\ t < length l.
Proof.
  intros H. split. apply nth_error_nth; auto. apply nth_error_Some. congruence.
Qed.

Lemma oeqb_true a b : oeqb a b = true <-> a = b.
Proof.
  destruct a, b; simpl; split; intros H; try congruence; try discriminate.
  - apply Nat.eqb_eq in H. congruence.
  - inversion H. apply Nat.eqb_refl.
Qed.

Lemma in_concat_nth {A} (ls : list (list A)) b x : In x (nth b ls []) -> In x (concat ls).
Proof.
  revert b; induction ls; intros [|b]; simpl; intros H; try contradiction.
  - apply in_or_app; auto.
  - apply in_or_app; right; eauto.
Qed.

Lemma in_concat_inv {A} (ls : list (list A)) x :
  In x (concat ls) -> exists b, b < length ls /\ In x (nth b ls []).
Proof.
  induction ls; simpl; intros H; [contradiction|].
  apply in_app_or in H as [H|H].
  - exists 0. split; [lia|auto].
  - destruct (IHls H) as (b & Hb & Hi). exists (S b). split; [lia|auto].
Qed.

Lemma concat_setn_cons {A} (ls : list (list A)) b x :
  b < length ls -> Permutation (concat (setn ls b (x :: nth b ls []))) (x :: concat ls).
Proof.
  revert b; induction ls; intros [|b]; simpl; intros H; try lia.
  - reflexivity.
  - rewrite (IHls b) by lia. symmetry. apply Permutation_middle.
Qed.

Lemma concat_repeat_nil {A} n : concat (repeat (@nil A) n) = [].
Proof. induction n; simpl; auto. Qed.

Lemma nth_repeat' {A} (a d : A) m n : n < m -> nth n (repeat a m) d = a.
Proof. revert n; induction m; intros [|n]; simpl; intros; try lia; auto. apply IHm. lia. Qed.

Lemma nth_repeat_nil {A} m n : nth n (repeat (@nil A) m) [] = [].
Proof. revert n; induction m; intros [|n]; simpl; auto. Qed.

Lemma NoDup_snoc {A} (l : list A) x : NoDup l -> ~ In x l -> NoDup (l ++ [x]).
Proof.
  intros Hn Hx. apply NoDup_rev in Hn. rewrite <- (rev_involutive (l ++ [x])).
  apply NoDup_rev. rewrite rev_app_distr. simpl. constructor; auto. rewrite <- in_rev. auto.
Qed.

Lemma NoDup_bounded_length (l : list nat) n : NoDup l -> (forall x, In x l -> x < n) -> length l <= n.
Proof.
  intros Hn Hb. rewrite <- (seq_length n 0). apply NoDup_incl_length; auto.
  intros x Hx. apply in_seq. specialize (Hb x Hx). lia.
Qed.

Lemma NoDup_app_inv {A} (l l' : list A) :
  NoDup (l ++ l') -> NoDup l /\ NoDup l' /\ forall x, In x l -> ~ In x l'.
Proof.
  induction l as [|a l IH]; simpl; intros H.
  - split; [constructor|]. split; auto.
  - inversion H; subst. destruct (IH H3) as (H4 & H5 & H6). split; [|split; auto].
    + constructor; auto. intros Hi. apply H2, in_or_app; auto.
    + intros x [<-|Hx] Hx'; [apply H2, in_or_app; auto | eapply H6; eauto].
Qed.

Lemma Forall2_impl_in {A B} (R R' : A -> B -> Prop) l1 l2 :
  (forall a b, In b l2 -> R a b -> R' a b) -> Forall2 R l1 l2 -> Forall2 R' l1 l2.
Proof.
  intros Himp HF. induction HF; constructor; [apply Himp; simpl; auto|].
  apply IHHF. intros a b Hb. apply Himp. simpl; auto.
Qed.

Lemma Forall2_of_nth {A B} (R : A -> B -> Prop) l1 l2 d1 d2 :
  length l1 = length l2 -> (forall i, i < length l1 -> R (nth i l1 d1) (nth i l2 d2)) ->
  Forall2 R l1 l2.
Proof.
  revert l2; induction l1 as [|a l1 IH]; intros [|b l2] Hl Hn; simpl in *; try lia; constructor.
  - apply (Hn 0). lia.
  - apply IH; [lia|]. intros i Hi. apply (Hn (S i)). lia.
Qed.

Lemma nth_map_default {A B} (f : A -> B) l n d d' : f d = d' -> nth n (map f l) d' = f (nth n l d).
Proof. intros <-. apply map_nth. Qed.

Definition countp {A} (p : A -> bool) (l : list A) : nat := length (filter p l).

Lemma countp_setn {A} (p : A -> bool) (l : list A) i v d : i < length l ->
  countp p (setn l i v) + (if p (nth i l d) then 1 else 0) = countp p l + (if p v then 1 else 0).
Proof.
  unfold countp. revert i; induction l; intros [|i]; simpl; intros H; try lia.
  - destruct (p a), (p v); simpl; lia.
  - specialize (IHl i ltac:(lia)). destruct (p a); simpl; lia.
Qed.

Lemma countp_zero {A} (p : A -> bool) (l : list A) : existsb p l = false -> countp p l = 0.
Proof.
  unfold countp. induction l; simpl; auto. intros H. apply orb_false_iff in H as [H1 H2].
  rewrite H1. auto.
Qed.

(** * The lane discipline (lock invariant) *)

Definition pcof (st : state) (t : nat) : pc := tpc (nth t (threads st) dthread).

(** [holds t p i]: thread [t] at program point [p] owns the mutex of lane [i]. *)
Definition holds (t : nat) (p : pc) (i : nat) : bool :=
  match p with
  | PIdle | PWaitBLA _ | PRelock _ => false
  | PAcquire _ j => Nat.eqb i t || Nat.ltb i j
  | PRehash _ | PRelBLA _ => true
  | PRelease _ j => Nat.eqb i t || Nat.leb j i
  | _ => Nat.eqb i t
  end.

(** Thread at [p] owns the BeforeLockAll mutex. *)
Definition holds_bla (p : pc) : bool :=
  match p with
  | PRelock _ | PRecheck _ | PNoGrow _ | PAcquire _ _ | PRehash _ | PRelBLA _ => true
  | _ => false
  end.

Definition idx_ok (n t : nat) (p : pc) : Prop :=
  match p with
  | PAcquire _ j | PRelease _ j => j < n /\ j <> t
  | _ => True
  end.

Record InvL (st : state) : Prop := {
  L0 : length (lanes st) = length (threads st);
  L1 : forall i t, i < length (threads st) ->
         (nth i (lanes st) None = Some t <-> holds t (pcof st t) i = true);
  L2 : forall t, bla st = Some t <-> holds_bla (pcof st t) = true;
  L3 : forall t, t < length (threads st) -> idx_ok (length (threads st)) t (pcof st t) }.

Lemma holds_acq_next n t id i0 i : i < n ->
  holds t (acq_next n t id i0) i = (Nat.eqb i t || Nat.ltb i i0)%bool.
Proof.
  intros Hi. unfold acq_next, skip.
  destruct (Nat.eqb i0 t) eqn:E1;
    [destruct (Nat.ltb (S i0) n) eqn:E2 | destruct (Nat.ltb i0 n) eqn:E2]; cbn [holds]; lia.
Qed.

Lemma holds_rel_next n t id i0 i : i < n ->
  holds t (rel_next n t id i0) i = (Nat.eqb i t || Nat.leb i0 i)%bool.
Proof.
  intros Hi. unfold rel_next, skip.
  destruct (Nat.eqb i0 t) eqn:E1;
    [destruct (Nat.ltb (S i0) n) eqn:E2 | destruct (Nat.ltb i0 n) eqn:E2]; cbn [holds]; lia.
Qed.

Lemma idx_ok_acq_next n t id i0 : idx_ok n t (acq_next n t id i0).
Proof.
  unfold acq_next, skip.
  destruct (Nat.eqb i0 t) eqn:E1;
    [destruct (Nat.ltb (S i0) n) eqn:E2 | destruct (Nat.ltb i0 n) eqn:E2]; cbn [idx_ok]; auto; lia.
Qed.

Lemma idx_ok_rel_next n t id i0 : idx_ok n t (rel_next n t id i0).
Proof.
  unfold rel_next, skip.
  destruct (Nat.eqb i0 t) eqn:E1;
    [destruct (Nat.ltb (S i0) n) eqn:E2 | destruct (Nat.ltb i0 n) eqn:E2]; cbn [idx_ok]; auto; lia.
Qed.

Lemma holds_bla_acq_next n t id i0 : holds_bla (acq_next n t id i0) = true.
Proof. unfold acq_next. destruct (Nat.ltb _ _); reflexivity. Qed.

Lemma holds_bla_rel_next n t id i0 : holds_bla (rel_next n t id i0) = false.
Proof. unfold rel_next. destruct (Nat.ltb _ _); reflexivity. Qed.

Lemma pcof_setn st t th t0 bk sto sz bc mx ln bl :
  t < length (threads st) ->
  pcof (mkState bk sto sz bc mx ln bl (setn (threads st) t th)) t0
  = if Nat.eqb t t0 then tpc th else pcof st t0.
Proof.
  intros Ht. unfold pcof. cbn [threads]. rewrite nth_setn.
  destruct (Nat.eqb t t0) eqn:E; simpl; auto.
  apply Nat.eqb_eq in E. subst. destruct (Nat.ltb t0 (length (threads st))) eqn:L; auto. lia.
Qed.

(** Generic preservation of the lane-ownership clause: thread [t] moves from [p] to [p'] and
    lane [c] is set to [v]. *)
Lemma L1_step st t p p' td c v bk sto sz bc mx bl :
  InvL st -> t < length (threads st) -> pcof st t = p -> c < length (threads st) ->
  (forall i, i < length (threads st) -> i <> c -> holds t p' i = holds t p i) ->
  ((v = Some t /\ holds t p' c = true /\ nth c (lanes st) None = None) \/
   (v = None /\ holds t p' c = false /\ holds t p c = true)) ->
  forall i t0, i < length (threads st) ->
    (nth i (setn (lanes st) c v) None = Some t0 <->
     holds t0 (pcof (mkState bk sto sz bc mx (setn (lanes st) c v) bl
                             (setn (threads st) t (mkThread td p'))) t0) i = true).
Proof.
  intros HL Ht Hp Hc Hsame Hv i t0 Hi.
  rewrite pcof_setn by auto. cbn [tpc].
  pose proof (L1 _ HL i t0 Hi) as Hold.
  pose proof (L1 _ HL c t0 Hc) as Holdc.
  pose proof (L1 _ HL c t Hc) as Holdt.
  rewrite nth_setn. rewrite (L0 _ HL).
  destruct (Nat.eqb t t0) eqn:Et.
  - apply Nat.eqb_eq in Et. subst t0.
    destruct (Nat.eqb c i) eqn:Ec.
    + apply Nat.eqb_eq in Ec. subst i.
      replace (Nat.ltb c (length (threads st))) with true by lia. simpl.
      destruct Hv as [(-> & H1 & H2)|(-> & H1 & H2)]; rewrite H1; split; congruence.
    + simpl. rewrite Hsame by lia. rewrite <- Hp. exact Hold.
  - destruct (Nat.eqb c i) eqn:Ec.
    + apply Nat.eqb_eq in Ec. subst i.
      replace (Nat.ltb c (length (threads st))) with true by lia. simpl.
      destruct Hv as [(-> & H1 & H2)|(-> & H1 & H2)].
      * split; [intros E; inversion E; lia|]. intros E. apply Holdc in E. congruence.
      * split; [discriminate|]. intros E. apply Holdc in E.
        rewrite Hp in Holdt. apply Holdt in H2. rewrite H2 in E. inversion E. lia.
    + simpl. exact Hold.
Qed.

(** Variant without a lane change. *)
Lemma L1_step0 st t p p' td bk sto sz bc mx bl :
  InvL st -> t < length (threads st) -> pcof st t = p ->
  (forall i, i < length (threads st) -> holds t p' i = holds t p i) ->
  forall i t0, i < length (threads st) ->
    (nth i (lanes st) None = Some t0 <->
     holds t0 (pcof (mkState bk sto sz bc mx (lanes st) bl
                             (setn (threads st) t (mkThread td p'))) t0) i = true).
Proof.
  intros HL Ht Hp Hsame i t0 Hi.
  rewrite pcof_setn by auto. cbn [tpc].
  pose proof (L1 _ HL i t0 Hi) as Hold.
  destruct (Nat.eqb t t0) eqn:Et; auto.
  apply Nat.eqb_eq in Et. subst t0. rewrite Hsame by auto. rewrite <- Hp. exact Hold.
Qed.

Lemma L2_step st t p p' td v bk sto sz bc mx ln :
  InvL st -> t < length (threads st) -> pcof st t = p ->
  ((v = bla st /\ holds_bla p' = holds_bla p) \/
   (v = Some t /\ holds_bla p' = true /\ bla st = None) \/
   (v = None /\ holds_bla p' = false /\ holds_bla p = true)) ->
  forall t0, v = Some t0 <->
    holds_bla (pcof (mkState bk sto sz bc mx ln v (setn (threads st) t (mkThread td p'))) t0) = true.
Proof.
  intros HL Ht Hp Hv t0. rewrite pcof_setn by auto. cbn [tpc].
  pose proof (L2 _ HL t0) as Hold. pose proof (L2 _ HL t) as Holdt. rewrite Hp in Holdt.
  destruct (Nat.eqb t t0) eqn:Et.
  - apply Nat.eqb_eq in Et. subst t0.
    destruct Hv as [(-> & H1)|[(-> & H1 & H2)|(-> & H1 & H2)]].
    + rewrite H1. exact Holdt.
    + rewrite H1. split; auto.
    + rewrite H1. split; discriminate.
  - destruct Hv as [(-> & H1)|[(-> & H1 & H2)|(-> & H1 & H2)]].
    + exact Hold.
    + split; [intros E; inversion E; lia|]. intros E. apply Hold in E. congruence.
    + split; [discriminate|]. intros E. apply Hold in E. apply Holdt in H2.
      rewrite H2 in E. inversion E. lia.
Qed.

Lemma L3_step st t p' td bk sto sz bc mx ln bl :
  InvL st -> t < length (threads st) -> idx_ok (length (threads st)) t p' ->
  forall t0, t0 < length (threads st) ->
    idx_ok (length (threads st)) t0
           (pcof (mkState bk sto sz bc mx ln bl (setn (threads st) t (mkThread td p'))) t0).
Proof.
  intros HL Ht Hp t0 Ht0. rewrite pcof_setn by auto. cbn [tpc].
  destruct (Nat.eqb t t0) eqn:Et.
  - apply Nat.eqb_eq in Et. subst. auto.
  - apply (L3 _ HL); auto.
Qed.

Lemma lane_free_true st i : lane_free st i = true -> nth i (lanes st) None = None.
Proof. unfold lane_free. destruct (nth i (lanes st) None); congruence. Qed.

Ltac step_cases H :=
  unfold step in H;
  match type of H with
  | context [nth_error ?l ?t] => destruct (nth_error l t) as [[[|k rest] p]|] eqn:Hth
  end; try discriminate H;
  cbn [todo tpc] in H; match goal with p0 : pc |- _ => destruct p0 end; cbn beta iota zeta in H;
  repeat match type of H with
         | context [if ?c then _ else _] => destruct c eqn:?
         | context [match ?c with _ => _ end] => destruct c eqn:?
         end; try discriminate H; injection H as <- <-.

Section Proofs.
  Context (hash : N -> N) (next_buckets : N -> N -> N) (next_max : N -> N -> N).
  Notation step := (step hash next_buckets next_max).
  Notation rehash := (rehash hash next_buckets next_max).
  Notation exec := (exec hash next_buckets next_max).
  Notation bucket_of := (bucket_of hash).

  Lemma rehash_locks st : lanes (rehash st) = lanes st /\ bla (rehash st) = bla st
                          /\ threads (rehash st) = threads st.
  Proof.
    unfold HashMapDefs.rehash. destruct (fold_left _ _ _) as [s n]. cbn. auto.
  Qed.

  Lemma step_InvL st t st' rs : InvL st -> step st t = Some (st', rs) -> InvL st'.
  Proof.
    intros HL H.
    assert (Hlen := L0 _ HL).
    step_cases H;
      apply (nth_error_nth_lt _ _ _ dthread) in Hth as [Hth Ht];
      assert (Hp : pcof st t = _) by (unfold pcof; rewrite Hth; reflexivity); cbn [tpc] in Hp;
      pose proof (L3 _ HL t Ht) as Hidx; rewrite Hp in Hidx; cbn [idx_ok] in Hidx.
    all: try (pose proof (rehash_locks st) as (Hr1 & Hr2 & Hr3)).
    all: unfold set_thr, set_lane, set_bla, set_store, set_buckets, set_size;
      cbn [buckets store size bcount maxsz lanes bla threads].
    all: try rewrite Hr1; try rewrite Hr2; try rewrite Hr3.
    all: constructor; cbn [buckets store size bcount maxsz lanes bla threads];
      rewrite ?length_setn; auto.
    all: rewrite ?Hlen.
    (* L1 *)
    all: try match goal with
      | |- forall i t0, _ -> (nth i (setn _ ?c ?v) None = Some t0 <-> _) =>
          apply (L1_step st t _ _ _ c v) with (1 := HL) (2 := Ht) (3 := Hp); try lia;
            [ intros ii Hii Hne; rewrite ?holds_acq_next, ?holds_rel_next by lia; cbn [holds]; lia
            | rewrite ?holds_acq_next, ?holds_rel_next by lia; cbn [holds];
              first [ left; repeat split; [lia | apply lane_free_true; assumption]
                    | right; repeat split; lia ] ]
      | |- forall i t0, _ -> (nth i (lanes _) None = Some t0 <-> _) =>
          apply (L1_step0 st t) with (1 := HL) (2 := Ht) (3 := Hp);
            intros ii Hii; rewrite ?holds_acq_next, ?holds_rel_next by lia; cbn [holds]; lia
      end.
    (* L2 *)
    all: try match goal with
      | |- forall t0, ?v = Some t0 <-> _ =>
          apply (L2_step st t) with (1 := HL) (2 := Ht) (3 := Hp);
            rewrite ?holds_bla_acq_next, ?holds_bla_rel_next; cbn [holds_bla];
            first [ left; split; [reflexivity|reflexivity]
                  | left; split; [congruence|reflexivity]
                  | right; left; repeat split; assumption
                  | right; right; repeat split; reflexivity ]
      end.
    (* L3 *)
    all: try (apply L3_step; auto; first [apply idx_ok_acq_next | apply idx_ok_rel_next | exact I]).
  Qed.

  (** * The lane discipline excludes [get]s from the rehash (crux of [grow_preserves]) *)

  (** A thread that does not own its own lane is outside the window lock(H) .. unlock(H). *)
  Definition outside (p : pc) : Prop :=
    p = PIdle \/ (exists id, p = PWaitBLA id) \/ (exists id, p = PRelock id).

  Lemma not_holding_own t p : holds t p t = false -> outside p.
  Proof.
    unfold outside. destruct p; cbn [holds]; intros H; eauto; try lia.
  Qed.

  Lemma rehash_exclusive st g id : InvL st -> g < length (threads st) ->
    pcof st g = PRehash id ->
    forall t, t < length (threads st) -> t <> g -> outside (pcof st t).
  Proof.
    intros HL Hg Hp t Ht Hne. apply (not_holding_own t).
    pose proof (L1 _ HL t g Ht) as H1. rewrite Hp in H1. cbn [holds] in H1.
    pose proof (L1 _ HL t t Ht) as H2.
    destruct (holds t (pcof st t) t) eqn:E; auto.
    destruct H1 as [_ H1]. destruct H2 as [_ H2]. rewrite H1 in H2 by auto.
    specialize (H2 eq_refl). inversion H2. lia.
  Qed.

  (** * Bucket lists *)

  (** [is_chain sto h l]: following [Next] pointers from head [h] visits exactly the nodes [l]
      and then reaches the null pointer. *)
  Fixpoint is_chain (sto : list node) (h : option nat) (l : list nat) : Prop :=
    match l with
    | [] => h = None
    | x :: r => h = Some x /\ x < length sto /\ is_chain sto (nnext (nth x sto dnode)) r
    end.

  Lemma is_chain_ext sto sto' h l :
    length sto <= length sto' ->
    (forall x, In x l -> x < length sto -> nth x sto' dnode = nth x sto dnode) ->
    is_chain sto h l -> is_chain sto' h l.
  Proof.
    intros Hlen. revert h. induction l as [|x r IH]; intros h Hsame Hc; simpl in *; auto.
    destruct Hc as (-> & Hx & Hc). split; auto. split; [lia|].
    rewrite Hsame by auto. apply IH; auto.
  Qed.

  Lemma is_chain_bound sto h l : is_chain sto h l -> forall x, In x l -> x < length sto.
  Proof.
    revert h. induction l as [|y r IH]; intros h Hc x Hx; simpl in *; [contradiction|].
    destruct Hc as (_ & Hy & Hc). destruct Hx as [<-|Hx]; eauto.
  Qed.

  Lemma is_chain_snoc_store sto nd h l : is_chain sto h l -> is_chain (sto ++ [nd]) h l.
  Proof.
    apply is_chain_ext. rewrite app_length; lia. intros x _ Hx. apply app_nth1; auto.
  Qed.

  Lemma is_chain_setn sto id v h l : ~ In id l -> is_chain sto h l -> is_chain (setn sto id v) h l.
  Proof.
    intros Hni. apply is_chain_ext. rewrite length_setn; lia.
    intros x Hx _. apply nth_setn_neq. intros ->. auto.
  Qed.

  Lemma is_chain_hd sto h l : is_chain sto h l -> h = hd_error l.
  Proof. destruct l; simpl; intuition. Qed.

  Lemma is_chain_suffix sto h pre suf : is_chain sto h (pre ++ suf) ->
    exists h', is_chain sto h' suf.
  Proof.
    revert h. induction pre as [|x p IH]; intros h Hc; simpl in *; eauto.
    destruct Hc as (_ & _ & Hc). eauto.
  Qed.

  (** Pointer reachability, as an independent description of "published". *)
  Inductive reach (sto : list node) : option nat -> nat -> Prop :=
  | reach_here x : reach sto (Some x) x
  | reach_next x y : reach sto (nnext (nth x sto dnode)) y -> reach sto (Some x) y.

  Lemma reach_chain sto h l : is_chain sto h l -> forall x, reach sto h x <-> In x l.
  Proof.
    revert h. induction l as [|y r IH]; intros h Hc x; simpl in *.
    - subst. split; [intros H; inversion H | contradiction].
    - destruct Hc as (-> & Hy & Hc). split.
      + intros H. inversion H; subst; auto. right. apply (IH _ Hc). auto.
      + intros [<-|H]; [constructor|]. apply reach_next. apply (IH _ Hc). auto.
  Qed.

  Lemma search_spec sto k pre : forall suf h stop fuel,
    is_chain sto h (pre ++ suf) -> hd_error suf = stop -> NoDup (pre ++ suf) ->
    length pre <= fuel ->
    match search sto fuel h stop k with
    | Some n => In n pre /\ keyof sto n = k
    | None => ~ In k (map (keyof sto) pre)
    end.
  Proof.
    induction pre as [|x p IH]; intros suf h stop fuel Hc Hs Hn Hf.
    - simpl in Hc. apply is_chain_hd in Hc. rewrite Hs in Hc. subst h.
      destruct fuel; simpl; replace (oeqb stop stop) with true
        by (symmetry; apply oeqb_true; reflexivity); auto.
    - simpl in Hc. destruct Hc as (-> & Hx & Hc). simpl in Hf.
      destruct fuel as [|f]; [lia|]. cbn [search].
      assert (Hne : oeqb (Some x) stop = false).
      { destruct (oeqb (Some x) stop) eqn:E; auto. apply oeqb_true in E. rewrite <- E in Hs.
        destruct suf as [|y s]; [discriminate|]. simpl in Hs. inversion Hs; subst y.
        simpl in Hn. inversion Hn; subst. exfalso. apply H1. apply in_or_app. right. left. auto. }
      rewrite Hne. unfold keyof at 1.
      destruct (N.eqb (nkey (nth x sto dnode)) k) eqn:E.
      + apply N.eqb_eq in E. split; [left; auto | exact E].
      + simpl in Hn. inversion Hn; subst.
        specialize (IH suf _ (hd_error suf) f Hc eq_refl H2 ltac:(lia)).
        destruct (search sto f (nnext (nth x sto dnode)) (hd_error suf) k).
        * destruct IH. split; [right; auto | auto].
        * simpl. intros [H|H]; [|auto]. unfold keyof in H. apply N.eqb_neq in E. auto.
  Qed.

  Lemma cas_head_eq sto cur pre suf :
    is_chain sto cur (pre ++ suf) -> NoDup (pre ++ suf) -> cur = hd_error suf -> pre = [].
  Proof.
    intros Hc Hn He. destruct pre as [|x p]; auto. exfalso.
    simpl in Hc. destruct Hc as (-> & _). destruct suf as [|y s]; [discriminate|].
    simpl in He. inversion He; subst y. simpl in Hn. inversion Hn; subst.
    apply H1. apply in_or_app. right. left. auto.
  Qed.

  (** * The rehash loop *)

  Definition push (nbc : N) (acc : list node * list (option nat)) (id : nat) :=
    let (sto, nh) := acc in
    let nd := nth id sto dnode in
    let nb := bucket_of nbc (nkey nd) in
    (setn sto id (mkNode (nkey nd) (nth nb nh None)), setn nh nb (Some id)).

  (** Ghost counterpart of [push] on the lists of node ids. *)
  Definition gpush (nbc : N) (sto0 : list node) (ch : list (list nat)) (id : nat) :=
    let nb := bucket_of nbc (keyof sto0 id) in setn ch nb (id :: nth nb ch []).

  Lemma rehash_chain_fold nbc l : forall fuel h sto nh,
    is_chain sto h l -> NoDup l -> length l <= fuel ->
    rehash_chain hash nbc fuel h (sto, nh) = fold_left (push nbc) l (sto, nh).
  Proof.
    induction l as [|x r IH]; intros fuel h sto nh Hc Hn Hf; simpl in Hc.
    - subst. destruct fuel; reflexivity.
    - destruct Hc as (-> & Hx & Hc). simpl in Hf. destruct fuel as [|f]; [lia|].
      inversion Hn; subst. cbn [rehash_chain fold_left push]. apply IH; auto; [|lia].
      apply is_chain_setn; auto.
  Qed.

  Lemma fold_push_other nbc l : forall sto nh x, ~ In x l ->
    nth x (fst (fold_left (push nbc) l (sto, nh))) dnode = nth x sto dnode
    /\ length (fst (fold_left (push nbc) l (sto, nh))) = length sto.
  Proof.
    induction l as [|y r IH]; intros sto nh x Hx; simpl; auto.
    destruct (IH (setn sto y (mkNode (nkey (nth y sto dnode))
                                     (nth (bucket_of nbc (nkey (nth y sto dnode))) nh None)))
                 (setn nh (bucket_of nbc (nkey (nth y sto dnode))) (Some y)) x) as [H1 H2].
    { intros H. apply Hx. right. auto. }
    rewrite H1, H2, length_setn. split; auto. apply nth_setn_neq. intros ->. apply Hx. left. auto.
  Qed.

  Lemma fold_push_length nbc l : forall sto nh,
    length (fst (fold_left (push nbc) l (sto, nh))) = length sto.
  Proof.
    induction l as [|y r IH]; intros sto nh; simpl; auto. rewrite IH, length_setn. auto.
  Qed.

  Lemma rehash_buckets_fold nbc fuel : forall heads chains sto nh,
    Forall2 (is_chain sto) heads chains -> NoDup (concat chains) ->
    (forall c, In c chains -> length c <= fuel) ->
    fold_left (fun acc h => rehash_chain hash nbc fuel h acc) heads (sto, nh)
    = fold_left (push nbc) (concat chains) (sto, nh).
  Proof.
    induction heads as [|h hs IH]; intros chains sto nh HF Hn Hf; inversion HF; subst; simpl; auto.
    rename y into c. rename l' into cs.
    simpl in Hn. rewrite fold_left_app.
    rewrite (rehash_chain_fold nbc c); auto.
    2:{ apply NoDup_app_inv in Hn. tauto. }
    2:{ apply Hf. left. auto. }
    destruct (fold_left (push nbc) c (sto, nh)) as [sto1 nh1] eqn:E.
    apply IH.
    - assert (Hd : forall x, In x (concat cs) -> ~ In x c).
      { apply NoDup_app_inv in Hn. destruct Hn as (_ & _ & Hn). intros x Hx Hc. eapply Hn; eauto. }
      revert H3. apply Forall2_impl_in. intros a b Hb Hab.
      assert (E1 : sto1 = fst (fold_left (push nbc) c (sto, nh))) by (rewrite E; auto).
      apply is_chain_ext with (sto := sto); auto.
      + subst sto1. rewrite fold_push_length. lia.
      + intros x Hx _. subst sto1. apply fold_push_other.
        apply Hd. apply in_concat. eauto.
    - apply NoDup_app_inv in Hn. tauto.
    - intros c' Hc'. apply Hf. right. auto.
  Qed.

  Record J (nbc : N) (m : nat) (sto0 sto : list node) (nh : list (option nat))
           (ch : list (list nat)) : Prop := {
    J1 : length nh = m;
    J1c : length ch = m;
    J1s : length sto = length sto0;
    J2 : forall b, b < m -> is_chain sto (nth b nh None) (nth b ch []);
    J3 : forall x, keyof sto x = keyof sto0 x;
    J4 : forall b id, In id (nth b ch []) -> bucket_of nbc (keyof sto0 id) = b }.

  Lemma fold_push_spec nbc m sto0 (Hm : forall k, bucket_of nbc k < m) l : forall sto nh ch,
    NoDup l -> (forall x, In x l -> x < length sto0) ->
    (forall x, In x (concat ch) -> ~ In x l) ->
    J nbc m sto0 sto nh ch ->
    J nbc m sto0 (fst (fold_left (push nbc) l (sto, nh))) (snd (fold_left (push nbc) l (sto, nh)))
      (fold_left (gpush nbc sto0) l ch).
  Proof.
    induction l as [|x r IH]; intros sto nh ch Hn Hb Hd HJ; [exact HJ|].
    cbn [fold_left push]. inversion Hn; subst.
    destruct HJ as [j1 j1c j1s j2 j3 j4].
    assert (Hk : nkey (nth x sto dnode) = keyof sto0 x) by (rewrite <- j3; reflexivity).
    rewrite Hk. unfold gpush at 2.
    set (nb := bucket_of nbc (keyof sto0 x)).
    assert (Hnb : nb < m) by apply Hm.
    assert (Hx : ~ In x (concat ch)).
    { intros Hi. apply (Hd x Hi). left. auto. }
    apply IH; auto.
    - intros y Hy. apply Hb. right. auto.
    - intros y Hy Hr. apply (Permutation_in _ (concat_setn_cons ch nb x ltac:(lia))) in Hy.
      destruct Hy as [<-|Hy]; [auto|]. apply (Hd y Hy). right. auto.
    - constructor; rewrite ?length_setn; auto.
      + intros b Hbm. rewrite (nth_setn nh), (nth_setn ch), j1, j1c.
        destruct (Nat.eqb nb b) eqn:E.
        * apply Nat.eqb_eq in E. subst b. replace (Nat.ltb nb m) with true by lia. cbn [andb].
          cbn [is_chain]. split; auto. rewrite length_setn. split; [rewrite j1s; apply Hb; left; auto|].
          rewrite nth_setn_eq by (rewrite j1s; apply Hb; left; auto). cbn [nnext].
          apply is_chain_setn; auto. intros Hi. apply Hx. eapply in_concat_nth; eauto.
        * cbn [andb]. apply is_chain_setn; auto. intros Hi. apply Hx. eapply in_concat_nth; eauto.
      + intros y. rewrite <- (j3 y). unfold keyof at 1 3. rewrite nth_setn.
        destruct (Nat.eqb x y && Nat.ltb y (length sto))%bool eqn:E; auto.
        cbn [nkey]. assert (x = y) by lia. subst. symmetry. apply Hk.
      + intros b id. rewrite (nth_setn ch), j1c.
        destruct (Nat.eqb nb b && Nat.ltb b m)%bool eqn:E; [|apply j4].
        intros [<-|Hi]; [subst nb; lia|]. assert (nb = b) by lia. subst b. apply j4; auto.
  Qed.

  Lemma gpush_perm nbc sto0 m (Hm : forall k, bucket_of nbc k < m) l : forall ch,
    length ch = m -> Permutation (concat (fold_left (gpush nbc sto0) l ch)) (l ++ concat ch).
  Proof.
    induction l as [|x r IH]; intros ch Hl; simpl; [reflexivity|].
    rewrite IH by (unfold gpush; rewrite length_setn; auto).
    unfold gpush. rewrite concat_setn_cons by (rewrite Hl; apply Hm).
    symmetry. apply Permutation_middle.
  Qed.

  Lemma NoDup_concat_in {A} (ls : list (list A)) c : NoDup (concat ls) -> In c ls -> NoDup c.
  Proof.
    induction ls as [|a ls IH]; simpl; intros Hn Hc; [contradiction|].
    apply NoDup_app_inv in Hn. destruct Hc as [<-|Hc]; [tauto|]. apply IH; tauto.
  Qed.

  Lemma bucket_lt nbc k : nbc <> 0%N -> bucket_of nbc k < N.to_nat nbc.
  Proof.
    intros H. unfold HashMapDefs.bucket_of. pose proof (N.mod_upper_bound (hash k) nbc H). lia.
  Qed.

  Lemma rehash_spec st chains :
    length chains = length (buckets st) ->
    (forall b, b < length (buckets st) ->
               is_chain (store st) (nth b (buckets st) None) (nth b chains [])) ->
    NoDup (concat chains) ->
    next_buckets (bcount st) (size st) <> 0%N ->
    let nbc := next_buckets (bcount st) (size st) in
    let ch' := fold_left (gpush nbc (store st)) (concat chains) (repeat [] (N.to_nat nbc)) in
    exists sto' nh',
      rehash st = mkState nh' sto' (size st) nbc (next_max (maxsz st) nbc) (lanes st) (bla st)
                          (threads st)
      /\ J nbc (N.to_nat nbc) (store st) sto' nh' ch'
      /\ Permutation (concat ch') (concat chains)
      /\ (forall x, ~ In x (concat chains) -> nth x sto' dnode = nth x (store st) dnode).
  Proof.
    intros Hlen Hch Hnd Hnz nbc ch'.
    assert (HF : Forall2 (is_chain (store st)) (buckets st) chains).
    { apply Forall2_of_nth with (d1 := None) (d2 := []); auto. }
    assert (Hbound : forall x, In x (concat chains) -> x < length (store st)).
    { intros x Hx. apply in_concat_inv in Hx as (b & Hb & Hx).
      eapply is_chain_bound; [apply (Hch b); lia | exact Hx]. }
    assert (Hfuel : forall c, In c chains -> length c <= length (store st)).
    { intros c Hc. apply NoDup_bounded_length. eapply NoDup_concat_in; eauto.
      intros x Hx. apply Hbound. apply in_concat. eauto. }
    unfold HashMapDefs.rehash. fold nbc.
    rewrite (rehash_buckets_fold nbc _ _ chains); auto.
    assert (Hm : forall k, bucket_of nbc k < N.to_nat nbc) by (intros; apply bucket_lt; auto).
    pose proof (fold_push_spec nbc (N.to_nat nbc) (store st) Hm (concat chains) (store st)
                  (repeat None (N.to_nat nbc)) (repeat [] (N.to_nat nbc)) Hnd Hbound) as HJ.
    pose proof (fun x H => proj1 (fold_push_other nbc (concat chains) (store st)
                                                  (repeat None (N.to_nat nbc)) x H)) as Hoth.
    destruct (fold_left (push nbc) (concat chains) (store st, repeat None (N.to_nat nbc)))
      as [sto' nh'].
    exists sto', nh'. split; [reflexivity|]. split; [|split].
    - apply HJ.
      + rewrite concat_repeat_nil. intros x [].
      + constructor; rewrite ?repeat_length; auto.
        * intros b Hb. rewrite nth_repeat' by auto. rewrite nth_repeat_nil. reflexivity.
        * intros b id. rewrite nth_repeat_nil. intros [].
    - unfold ch'. rewrite (gpush_perm nbc (store st) (N.to_nat nbc) Hm) by apply repeat_length.
      rewrite concat_repeat_nil, app_nil_r. reflexivity.
    - exact Hoth.
  Qed.

  (** * The main invariant *)

  (** The node a thread will return (with its Inserted flag), once it is determined. *)
  Definition pc_node (p : pc) : option (nat * bool) :=
    match p with
    | PIdle | PLocked | PCas _ _ _ => None
    | PUnlock id ins => Some (id, ins)
    | PInc id | PTryBLA id | PYield id | PWaitBLA id | PRelock id | PRecheck id | PNoGrow id
    | PAcquire id _ | PRehash id | PRelBLA id | PRelease id _ => Some (id, true)
    end.

  Definition is_cas (p : pc) : bool := match p with PCas _ _ _ => true | _ => false end.
  Definition is_incp (p : pc) : bool := match p with PInc _ => true | _ => false end.

  (** The node a thread brought itself (unpublished while at [PCas], published afterwards). *)
  Definition own (p : pc) : option nat :=
    match p with
    | PCas id _ _ => Some id
    | _ => match pc_node p with Some (id, true) => Some id | _ => None end
    end.

  Definition local_ok (sto : list node) (bc : N) (chains : list (list nat)) (th : thread) : Prop :=
    match tpc th with
    | PCas id b lkh =>
        id < length sto /\ ~ In id (concat chains) /\
        hd_error (todo th) = Some (keyof sto id) /\
        nnext (nth id sto dnode) = lkh /\
        b = bucket_of bc (keyof sto id) /\
        exists pre suf, nth b chains [] = pre ++ suf /\ hd_error suf = lkh /\
                        ~ In (keyof sto id) (map (keyof sto) suf)
    | p => match pc_node p with
           | Some (id, _) => In id (concat chains) /\ hd_error (todo th) = Some (keyof sto id)
           | None => True
           end
    end.

  Definition true_ids (h : list (nat * response)) : list nat := map rnode (filter rins h).

  Record InvC (st : state) (hist : list (nat * response)) (chains : list (list nat)) : Prop := {
    C_bc : bcount st <> 0%N;
    C_len : length (buckets st) = N.to_nat (bcount st);
    C_clen : length chains = length (buckets st);
    C_chain : forall b, b < length (buckets st) ->
                is_chain (store st) (nth b (buckets st) None) (nth b chains []);
    C_keys : NoDup (map (keyof (store st)) (concat chains));
    C_place : forall b id, In id (nth b chains []) -> bucket_of (bcount st) (keyof (store st) id) = b;
    C_local : forall t, t < length (threads st) ->
                local_ok (store st) (bcount st) chains (nth t (threads st) dthread);
    C_own : forall t t' i, t < length (threads st) -> t' < length (threads st) -> t <> t' ->
              own (pcof st t) = Some i -> own (pcof st t') <> Some i;
    C_size : N.to_nat (size st) + countp is_inc (threads st) = length (concat chains);
    C_r1 : forall r, In r hist ->
             In (rnode r) (concat chains) /\ keyof (store st) (rnode r) = rkey r;
    C_r2 : NoDup (true_ids hist);
    C_r3 : forall t id, t < length (threads st) -> pc_node (pcof st t) = Some (id, true) ->
             ~ In id (true_ids hist);
    C_r4 : forall id, In id (concat chains) ->
             In id (true_ids hist) \/
             exists t, t < length (threads st) /\ pc_node (pcof st t) = Some (id, true) }.

  Lemma published_bound st hist chains : InvC st hist chains ->
    forall x, In x (concat chains) -> x < length (store st).
  Proof.
    intros HC x Hx. apply in_concat_inv in Hx as (b & Hb & Hx).
    eapply is_chain_bound; [apply (C_chain _ _ _ HC b); rewrite <- (C_clen _ _ _ HC); auto | exact Hx].
  Qed.

  Lemma own_bound st hist chains : InvC st hist chains ->
    forall t i, t < length (threads st) -> own (pcof st t) = Some i -> i < length (store st).
  Proof.
    intros HC t i Ht Ho. pose proof (C_local _ _ _ HC t Ht) as Hl.
    unfold pcof in Ho. unfold local_ok in Hl.
    destruct (tpc (nth t (threads st) dthread)); cbn [own pc_node] in Ho; try discriminate;
      cbn [pc_node] in Hl; try (inversion Ho; subst; tauto);
      try (inversion Ho; subst; eapply published_bound; [eauto | tauto]).
    destruct ins; inversion Ho; subst. eapply published_bound; [eauto | tauto].
  Qed.

  Lemma local_ok_frame sto sto' bc bc' chains chains' th :
    local_ok sto bc chains th ->
    (forall x, In x (concat chains) -> In x (concat chains')) ->
    (forall x, x < length sto -> keyof sto' x = keyof sto x) ->
    (forall x, In x (concat chains) -> x < length sto) ->
    match tpc th with
    | PCas id b lkh =>
        bc' = bc /\ length sto <= length sto' /\ nth id sto' dnode = nth id sto dnode /\
        ~ In id (concat chains') /\ exists pre', nth b chains' [] = pre' ++ nth b chains []
    | _ => True
    end ->
    local_ok sto' bc' chains' th.
  Proof.
    unfold local_ok. intros Hl Hsub Hk Hb Hc.
    destruct (tpc th); cbn [pc_node] in *; auto;
      try solve [destruct Hl as [H1 H2]; split; [auto | rewrite Hk; auto]].
    destruct Hl as (H1 & H2 & H3 & H4 & H5 & pre & suf & H6 & H7 & H8).
    destruct Hc as (-> & Hc2 & Hc3 & Hc4 & pre' & Hc5).
    rewrite (Hk id H1). repeat split; auto; try lia.
    - rewrite Hc3. auto.
    - exists (pre' ++ pre), suf. rewrite Hc5, H6, app_assoc. repeat split; auto.
      rewrite (map_ext_in (keyof sto') (keyof sto)); auto.
      intros x Hx. apply Hk, Hb. apply (in_concat_nth _ b). rewrite H6. apply in_or_app; auto.
  Qed.

  Lemma nth_threads_setn st t th t0 :
    nth t0 (setn (threads st) t th) dthread
    = if (Nat.eqb t t0 && Nat.ltb t0 (length (threads st)))%bool then th
      else nth t0 (threads st) dthread.
  Proof. apply nth_setn. Qed.

  (** Preservation by every step that leaves the bucket lists, the published set and the
      response history alone (everything except a successful CAS, the rehash and the return). *)
  Lemma frame_step st hist chains t th th' sto' sz' ln bl :
    InvC st hist chains -> t < length (threads st) -> nth t (threads st) dthread = th ->
    length (store st) <= length sto' ->
    (forall x, x < length (store st) -> keyof sto' x = keyof (store st) x) ->
    (forall x, x < length (store st) -> In x (concat chains) ->
               nth x sto' dnode = nth x (store st) dnode) ->
    (forall x, x < length (store st) -> own (tpc th) <> Some x ->
               nth x sto' dnode = nth x (store st) dnode) ->
    (own (tpc th') = own (tpc th) \/ own (tpc th') = None \/
     (own (tpc th) = None /\ own (tpc th') = Some (length (store st)))) ->
    (forall id, pc_node (tpc th') = Some (id, true) <-> pc_node (tpc th) = Some (id, true)) ->
    N.to_nat sz' + (if is_inc th' then 1 else 0) = N.to_nat (size st) + (if is_inc th then 1 else 0) ->
    local_ok sto' (bcount st) chains th' ->
    InvC (mkState (buckets st) sto' sz' (bcount st) (maxsz st) ln bl (setn (threads st) t th'))
         hist chains.
  Proof.
    intros HC Ht Hth Hlen Hkey Hpub Hoth Hown Hnode Hsz Hloc.
    pose proof (published_bound _ _ _ HC) as Hbound.
    assert (Hpc : forall t0, pcof (mkState (buckets st) sto' sz' (bcount st) (maxsz st) ln bl
                                           (setn (threads st) t th')) t0
                             = if Nat.eqb t t0 then tpc th' else pcof st t0).
    { intros. apply pcof_setn. auto. }
    assert (Hpt : pcof st t = tpc th) by (unfold pcof; rewrite Hth; auto).
    constructor; cbn [buckets store size bcount maxsz lanes bla threads]; rewrite ?length_setn.
    - apply (C_bc _ _ _ HC).
    - apply (C_len _ _ _ HC).
    - apply (C_clen _ _ _ HC).
    - intros b Hb. apply is_chain_ext with (sto := store st); auto; [|apply (C_chain _ _ _ HC); auto].
      intros x Hx Hxl. apply Hpub; auto. eapply in_concat_nth; eauto.
    - rewrite (map_ext_in (keyof sto') (keyof (store st))); [apply (C_keys _ _ _ HC)|].
      intros x Hx. apply Hkey. auto.
    - intros b id Hi. rewrite Hkey; [apply (C_place _ _ _ HC); auto|].
      apply Hbound. eapply in_concat_nth; eauto.
    - intros t0 Ht0. rewrite nth_threads_setn.
      destruct (Nat.eqb t t0 && Nat.ltb t0 (length (threads st)))%bool eqn:E; auto.
      assert (Hne : t <> t0) by lia.
      pose proof (C_local _ _ _ HC t0 Ht0) as Hl0.
      eapply local_ok_frame; eauto.
      destruct (tpc (nth t0 (threads st) dthread)) eqn:Ep; auto.
      repeat split; auto.
      + apply Hoth; [unfold local_ok in Hl0; rewrite Ep in Hl0; tauto|].
        rewrite <- Hpt. intros Ho.
        apply (C_own _ _ _ HC t t0 id Ht Ht0 Hne Ho). unfold pcof. rewrite Ep. reflexivity.
      + unfold local_ok in Hl0; rewrite Ep in Hl0; tauto.
      + exists []. reflexivity.
    - intros t1 t2 i Ht1 Ht2 Hne. rewrite !Hpc.
      destruct (Nat.eqb t t1) eqn:E1; destruct (Nat.eqb t t2) eqn:E2; try lia.
      + assert (t1 = t) by lia. subst t1. intros Ho.
        destruct Hown as [Hown|[Hown|[Hown1 Hown]]]; rewrite Hown in Ho.
        * rewrite <- Hpt in Ho. apply (C_own _ _ _ HC t t2 i); auto.
        * discriminate.
        * inversion Ho; subst i. intros Ho2. apply (own_bound _ _ _ HC) in Ho2; auto. lia.
      + assert (t2 = t) by lia. subst t2. intros Ho Ho2.
        destruct Hown as [Hown|[Hown|[Hown1 Hown]]]; rewrite Hown in Ho2.
        * rewrite <- Hpt in Ho2. apply (C_own _ _ _ HC t1 t i); auto.
        * discriminate.
        * inversion Ho2; subst i. apply (own_bound _ _ _ HC) in Ho; auto. lia.
      + apply (C_own _ _ _ HC); auto.
    - pose proof (countp_setn is_inc (threads st) t th' dthread Ht) as Hcp.
      rewrite Hth in Hcp. pose proof (C_size _ _ _ HC). lia.
    - intros r Hr. destruct (C_r1 _ _ _ HC r Hr) as [H1 H2]. split; auto.
      rewrite Hkey; auto.
    - apply (C_r2 _ _ _ HC).
    - intros t0 id Ht0. rewrite Hpc. destruct (Nat.eqb t t0) eqn:E.
      + intros Hn. apply Hnode in Hn. rewrite <- Hpt in Hn. apply (C_r3 _ _ _ HC t id Ht Hn).
      + apply (C_r3 _ _ _ HC); auto.
    - intros id Hi. destruct (C_r4 _ _ _ HC id Hi) as [H|(t0 & Ht0 & Hn)]; auto.
      right. exists t0. split; auto. rewrite Hpc. destruct (Nat.eqb t t0) eqn:E; auto.
      assert (t0 = t) by lia. subst t0. apply Hnode. rewrite <- Hpt. auto.
  Qed.

  (** Helper lemmas for a single-thread update. *)
  Definition pcs (ths : list thread) (t : nat) : pc := tpc (nth t ths dthread).

  Lemma pcof_pcs st t : pcof st t = pcs (threads st) t.
  Proof. reflexivity. Qed.

  Lemma pcs_setn ths t th' t0 : t < length ths ->
    pcs (setn ths t th') t0 = if Nat.eqb t t0 then tpc th' else pcs ths t0.
  Proof.
    intros Ht. unfold pcs. rewrite nth_setn. destruct (Nat.eqb t t0) eqn:E; simpl; auto.
    apply Nat.eqb_eq in E. subst. destruct (Nat.ltb t0 (length ths)) eqn:L; auto. lia.
  Qed.

  Lemma own_upd ths t th' : t < length ths ->
    (forall t1 t2 i, t1 < length ths -> t2 < length ths -> t1 <> t2 ->
                     own (pcs ths t1) = Some i -> own (pcs ths t2) <> Some i) ->
    (own (tpc th') = own (pcs ths t) \/ own (tpc th') = None) ->
    forall t1 t2 i, t1 < length ths -> t2 < length ths -> t1 <> t2 ->
                    own (pcs (setn ths t th') t1) = Some i -> own (pcs (setn ths t th') t2) <> Some i.
  Proof.
    intros Ht Hold Hown t1 t2 i Ht1 Ht2 Hne. rewrite !pcs_setn by auto.
    destruct (Nat.eqb t t1) eqn:E1; destruct (Nat.eqb t t2) eqn:E2; try lia.
    - assert (t1 = t) by lia. subst t1. destruct Hown as [-> | ->]; [|discriminate].
      apply Hold; auto.
    - assert (t2 = t) by lia. subst t2. destruct Hown as [-> | ->]; [|discriminate].
      apply Hold; auto.
    - apply Hold; auto.
  Qed.

  Lemma r3_upd ths t th' (T : list nat) : t < length ths ->
    (forall t0 id, t0 < length ths -> pc_node (pcs ths t0) = Some (id, true) -> ~ In id T) ->
    (forall id, pc_node (tpc th') = Some (id, true) -> pc_node (pcs ths t) = Some (id, true)) ->
    forall t0 id, t0 < length ths -> pc_node (pcs (setn ths t th') t0) = Some (id, true) -> ~ In id T.
  Proof.
    intros Ht Hold Hn t0 id Ht0. rewrite pcs_setn by auto. destruct (Nat.eqb t t0) eqn:E.
    - intros H. apply Hn in H. apply (Hold t id Ht H).
    - apply Hold; auto.
  Qed.

  Lemma r4_upd ths t th' (P : nat -> Prop) (T : list nat) : t < length ths ->
    (forall id, P id -> In id T \/ exists t0, t0 < length ths /\ pc_node (pcs ths t0) = Some (id, true)) ->
    (forall id, pc_node (pcs ths t) = Some (id, true) -> pc_node (tpc th') = Some (id, true)) ->
    forall id, P id ->
      In id T \/ exists t0, t0 < length (setn ths t th')
                            /\ pc_node (pcs (setn ths t th') t0) = Some (id, true).
  Proof.
    intros Ht Hold Hn id Hp. destruct (Hold id Hp) as [H|(t0 & Ht0 & H)]; auto.
    right. exists t0. rewrite length_setn. split; auto. rewrite pcs_setn by auto.
    destruct (Nat.eqb t t0) eqn:E; auto. assert (t0 = t) by lia. subst. auto.
  Qed.

  Lemma own_of_node p i : pc_node p = Some (i, true) -> own p = Some i.
  Proof. destruct p; cbn [pc_node own]; intros H; inversion H; auto. Qed.

  Lemma true_ids_in h id : In id (true_ids h) -> exists r, In r h /\ rnode r = id.
  Proof.
    unfold true_ids. intros H. apply in_map_iff in H as (r & <- & Hr).
    apply filter_In in Hr. exists r. tauto.
  Qed.

  Lemma true_ids_snoc h t k id ins :
    true_ids (h ++ [(t, RGet k id ins)]) = true_ids h ++ (if ins then [id] else []).
  Proof.
    unfold true_ids. rewrite filter_app, map_app. f_equal. simpl. unfold rins. simpl.
    destruct ins; reflexivity.
  Qed.

  (** ** Successful CAS: the node becomes the head of its bucket. *)
  Lemma cas_success_step st hist chains t td id b lkh ln bl :
    InvC st hist chains -> t < length (threads st) ->
    nth t (threads st) dthread = mkThread td (PCas id b lkh) ->
    nth b (buckets st) None = lkh ->
    InvC (mkState (setn (buckets st) b (Some id)) (store st) (size st) (bcount st) (maxsz st) ln bl
                  (setn (threads st) t (mkThread td (PInc id))))
         hist (setn chains b (id :: nth b chains [])).
  Proof.
    intros HC Ht Hth Hcur.
    pose proof (published_bound _ _ _ HC) as Hbound.
    pose proof (C_local _ _ _ HC t Ht) as Hl. rewrite Hth in Hl. unfold local_ok in Hl.
    cbn [tpc todo] in Hl.
    destruct Hl as (H1 & H2 & H3 & H4 & H5 & pre & suf & H6 & H7 & H8).
    assert (Hb : b < length (buckets st)).
    { rewrite H5, (C_len _ _ _ HC). apply bucket_lt. apply (C_bc _ _ _ HC). }
    assert (Hbc : b < length chains) by (rewrite (C_clen _ _ _ HC); auto).
    assert (Hnd : NoDup (concat chains)).
    { eapply NoDup_map_inv. apply (C_keys _ _ _ HC). }
    pose proof (C_chain _ _ _ HC b Hb) as Hchain.
    assert (Hpre : pre = []).
    { eapply cas_head_eq with (suf := suf); [rewrite <- H6; eauto | | congruence].
      rewrite <- H6. eapply NoDup_concat_in; eauto. apply nth_In. auto. }
    subst pre. simpl in H6.
    pose proof (concat_setn_cons chains b id Hbc) as Hperm.
    assert (Hsub : forall x, In x (concat chains) -> In x (concat (setn chains b (id :: nth b chains [])))).
    { intros x Hx. apply (Permutation_in _ (Permutation_sym Hperm)). right. auto. }
    assert (Hpt : pcs (threads st) t = PCas id b lkh) by (unfold pcs; rewrite Hth; auto).
    constructor; cbn [buckets store size bcount maxsz lanes bla threads]; rewrite ?length_setn.
    - apply (C_bc _ _ _ HC).
    - apply (C_len _ _ _ HC).
    - apply (C_clen _ _ _ HC).
    - intros b0 Hb0. rewrite (nth_setn (buckets st)), (nth_setn chains).
      rewrite (C_clen _ _ _ HC).
      destruct (Nat.eqb b b0 && Nat.ltb b0 (length (buckets st)))%bool eqn:E.
      + cbn [is_chain]. split; auto. split; auto. rewrite H4, <- Hcur. auto.
      + apply (C_chain _ _ _ HC); auto.
    - apply (Permutation_NoDup (Permutation_sym (Permutation_map _ Hperm))).
      simpl. constructor; [|apply (C_keys _ _ _ HC)].
      intros Hin. apply in_map_iff in Hin as (x & Hk & Hx).
      apply in_concat_inv in Hx as (b0 & Hb0 & Hx).
      pose proof (C_place _ _ _ HC b0 x Hx) as Hp. rewrite Hk, <- H5 in Hp. subst b0.
      apply H8. rewrite <- H6. apply in_map_iff. eauto.
    - intros b0 id0. rewrite (nth_setn chains).
      destruct (Nat.eqb b b0 && Nat.ltb b0 (length chains))%bool eqn:E; [|apply (C_place _ _ _ HC)].
      assert (b0 = b) by lia. subst b0.
      intros [<-|Hi]; [auto | apply (C_place _ _ _ HC); auto].
    - intros t0 Ht0. rewrite nth_threads_setn.
      destruct (Nat.eqb t t0 && Nat.ltb t0 (length (threads st)))%bool eqn:E.
      + unfold local_ok. cbn [tpc todo pc_node]. split; auto.
        apply (Permutation_in _ (Permutation_sym Hperm)). left. auto.
      + assert (Hne : t <> t0) by lia.
        pose proof (C_local _ _ _ HC t0 Ht0) as Hl0.
        eapply local_ok_frame; eauto.
        destruct (tpc (nth t0 (threads st) dthread)) eqn:Ep; auto.
        unfold local_ok in Hl0. rewrite Ep in Hl0.
        repeat split; auto.
        * intros Hi. apply (Permutation_in _ Hperm) in Hi. destruct Hi as [Hi|Hi]; [|tauto].
          apply (C_own _ _ _ HC t t0 id Ht Ht0 Hne).
          -- unfold pcof. rewrite Hth. reflexivity.
          -- unfold pcof. rewrite Ep. subst. reflexivity.
        * rewrite (nth_setn chains).
          match goal with |- context [andb (Nat.eqb b ?bb) _] =>
            destruct (Nat.eqb b bb && Nat.ltb bb (length chains))%bool eqn:E2;
            [assert (bb = b) by lia; subst; exists [id]; reflexivity | exists []; reflexivity]
          end.
    - apply own_upd; [exact Ht | apply (C_own _ _ _ HC) | left; rewrite Hpt; reflexivity].
    - pose proof (countp_setn is_inc (threads st) t (mkThread td (PInc id)) dthread Ht) as Hcp.
      rewrite Hth in Hcp. cbn in Hcp. pose proof (C_size _ _ _ HC) as Hs.
      rewrite (Permutation_length Hperm). simpl. lia.
    - intros r Hr. destruct (C_r1 _ _ _ HC r Hr). auto.
    - apply (C_r2 _ _ _ HC).
    - intros t0 id0 Ht0. rewrite pcof_pcs. cbn [threads]. rewrite pcs_setn by auto.
      destruct (Nat.eqb t t0) eqn:E.
      + cbn [tpc pc_node]. intros Hi. inversion Hi; subst id0. intros Hin.
        apply true_ids_in in Hin as (r & Hr & <-). apply H2. apply (C_r1 _ _ _ HC r Hr).
      + apply (C_r3 _ _ _ HC); auto.
    - intros id0 Hi. apply (Permutation_in _ Hperm) in Hi. destruct Hi as [<-|Hi].
      + right. exists t. split; auto. rewrite pcof_pcs. cbn [threads]. rewrite pcs_setn by auto.
        rewrite Nat.eqb_refl. reflexivity.
      + destruct (C_r4 _ _ _ HC id0 Hi) as [H|(t0 & Ht0 & H)]; auto.
        right. exists t0. split; auto. rewrite pcof_pcs. cbn [threads]. rewrite pcs_setn by auto.
        destruct (Nat.eqb t t0) eqn:E; auto. assert (t0 = t) by lia. subst t0.
        unfold pcof in H. rewrite Hth in H. discriminate H.
  Qed.

  (** ** Return: the response joins the history. *)
  Lemma unlock_step st hist chains t k rest id ins ln bl :
    InvC st hist chains -> t < length (threads st) ->
    nth t (threads st) dthread = mkThread (k :: rest) (PUnlock id ins) ->
    InvC (mkState (buckets st) (store st) (size st) (bcount st) (maxsz st) ln bl
                  (setn (threads st) t (mkThread rest PIdle)))
         (hist ++ [(t, RGet k id ins)]) chains.
  Proof.
    intros HC Ht Hth.
    pose proof (C_local _ _ _ HC t Ht) as Hl. rewrite Hth in Hl. unfold local_ok in Hl.
    cbn [tpc todo pc_node hd_error] in Hl. destruct Hl as [Hl1 Hl2]. inversion Hl2 as [Hk].
    assert (Hpt : pcs (threads st) t = PUnlock id ins) by (unfold pcs; rewrite Hth; auto).
    constructor; cbn [buckets store size bcount maxsz lanes bla threads]; rewrite ?length_setn;
      try solve [apply HC].
    - intros t0 Ht0. rewrite nth_threads_setn.
      destruct (Nat.eqb t t0 && Nat.ltb t0 (length (threads st)))%bool eqn:E.
      + exact I.
      + apply (C_local _ _ _ HC); auto.
    - apply own_upd; [exact Ht | apply (C_own _ _ _ HC) | right; reflexivity].
    - pose proof (countp_setn is_inc (threads st) t (mkThread rest PIdle) dthread Ht) as Hcp.
      rewrite Hth in Hcp. cbn in Hcp. pose proof (C_size _ _ _ HC) as Hs. lia.
    - intros r Hr. apply in_app_or in Hr as [Hr|[<-|[]]]; [apply (C_r1 _ _ _ HC); auto|].
      cbn. split; auto.
    - rewrite true_ids_snoc. destruct ins; [|rewrite app_nil_r; apply (C_r2 _ _ _ HC)].
      apply NoDup_snoc; [apply (C_r2 _ _ _ HC)|].
      apply (C_r3 _ _ _ HC t id Ht). unfold pcof. rewrite Hth. reflexivity.
    - intros t0 id0 Ht0. rewrite pcof_pcs. cbn [threads]. rewrite pcs_setn by auto.
      destruct (Nat.eqb t t0) eqn:E; [discriminate|]. intros Hn.
      rewrite true_ids_snoc. intros Hin. apply in_app_or in Hin as [Hin|Hin].
      + revert Hin. apply (C_r3 _ _ _ HC t0 id0); auto.
      + destruct ins; [|contradiction]. destruct Hin as [<-|[]].
        apply own_of_node in Hn.
        apply (C_own _ _ _ HC t t0 id Ht Ht0 ltac:(lia)); auto.
        unfold pcof. rewrite Hth. reflexivity.
    - intros id0 Hi. rewrite true_ids_snoc.
      destruct (C_r4 _ _ _ HC id0 Hi) as [H|(t0 & Ht0 & H)].
      + left. apply in_or_app. auto.
      + destruct (Nat.eqb t t0) eqn:E.
        * assert (t0 = t) by lia. subst t0. unfold pcof in H. rewrite Hth in H.
          cbn in H. inversion H; subst. left. apply in_or_app. right. left. auto.
        * right. exists t0. split; auto. rewrite pcof_pcs. cbn [threads]. rewrite pcs_setn by auto.
          rewrite E. auto.
  Qed.

  (** ** The rehash: same published nodes, new bucket lists. *)
  Lemma rehash_step st hist chains t td id :
    InvL st -> InvC st hist chains -> t < length (threads st) ->
    nth t (threads st) dthread = mkThread td (PRehash id) ->
    next_buckets (bcount st) (size st) <> 0%N ->
    exists chains',
      InvC (set_thr (rehash st) t (mkThread td (PRelBLA id))) hist chains'
      /\ Permutation (concat chains') (concat chains)
      /\ (forall x, keyof (store (rehash st)) x = keyof (store st) x)
      /\ bcount (rehash st) = next_buckets (bcount st) (size st).
  Proof.
    intros HL HC Ht Hth Hnz.
    assert (Hnd : NoDup (concat chains)) by (eapply NoDup_map_inv; apply (C_keys _ _ _ HC)).
    destruct (rehash_spec st chains (C_clen _ _ _ HC) (C_chain _ _ _ HC) Hnd Hnz)
      as (sto' & nh' & Hre & HJ & Hperm & Hoth).
    set (nbc := next_buckets (bcount st) (size st)) in *.
    set (ch' := fold_left (gpush nbc (store st)) (concat chains) (repeat [] (N.to_nat nbc))) in *.
    exists ch'. rewrite Hre. cbn [store bcount]. destruct HJ as [j1 j1c j1s j2 j3 j4].
    split; [|auto].
    assert (Hpt : pcs (threads st) t = PRehash id) by (unfold pcs; rewrite Hth; auto).
    assert (Hin : forall x, In x (concat ch') <-> In x (concat chains)).
    { intros x; split; apply Permutation_in; auto. symmetry. auto. }
    unfold set_thr. cbn [buckets store size bcount maxsz lanes bla threads].
    constructor; cbn [buckets store size bcount maxsz lanes bla threads]; rewrite ?length_setn.
    - exact Hnz.
    - exact j1.
    - lia.
    - intros b Hb. apply j2. lia.
    - rewrite (map_ext _ _ j3).
      apply (Permutation_NoDup (Permutation_sym (Permutation_map _ Hperm))). apply (C_keys _ _ _ HC).
    - intros b x Hx. rewrite j3. apply j4; auto.
    - intros t0 Ht0. rewrite nth_threads_setn.
      destruct (Nat.eqb t t0 && Nat.ltb t0 (length (threads st)))%bool eqn:E.
      + pose proof (C_local _ _ _ HC t Ht) as Hl. rewrite Hth in Hl. unfold local_ok in *.
        cbn [tpc todo pc_node] in *. rewrite j3. split; [apply Hin|]; tauto.
      + assert (Hne : t0 <> t) by lia.
        pose proof (rehash_exclusive st t id HL Ht Hpt t0 Ht0 Hne) as Hout.
        pose proof (C_local _ _ _ HC t0 Ht0) as Hl0.
        eapply local_ok_frame; eauto.
        * intros x. apply Hin.
        * apply (published_bound _ _ _ HC).
        * unfold pcof in Hout. destruct Hout as [-> | [[i ->] | [i ->]]]; exact I.
    - apply own_upd; [exact Ht | apply (C_own _ _ _ HC) | left; rewrite Hpt; reflexivity].
    - pose proof (countp_setn is_inc (threads st) t (mkThread td (PRelBLA id)) dthread Ht) as Hcp.
      rewrite Hth in Hcp. cbn in Hcp. pose proof (C_size _ _ _ HC) as Hs.
      rewrite (Permutation_length Hperm). lia.
    - intros r Hr. destruct (C_r1 _ _ _ HC r Hr). rewrite j3. split; auto. apply Hin. auto.
    - apply (C_r2 _ _ _ HC).
    - intros t0 id0 Ht0. rewrite pcof_pcs. cbn [threads]. revert t0 id0 Ht0.
      apply r3_upd; [exact Ht | apply (C_r3 _ _ _ HC) |]. rewrite Hpt. cbn. auto.
    - intros id0 Hi. rewrite <- (length_setn (threads st) t (mkThread td (PRelBLA id))).
      revert id0 Hi.
      apply (r4_upd (threads st) t (mkThread td (PRelBLA id)) (fun x => In x (concat ch'))); auto.
      + intros x Hx. apply (C_r4 _ _ _ HC). apply Hin. auto.
      + rewrite Hpt. cbn. auto.
  Qed.

  Lemma acq_next_cases n t id i :
    acq_next n t id i = PRehash id \/ exists j, acq_next n t id i = PAcquire id j.
  Proof. unfold acq_next. destruct (Nat.ltb _ _); eauto. Qed.

  Lemma rel_next_cases n t id i :
    rel_next n t id i = PUnlock id true \/ exists j, rel_next n t id i = PRelease id j.
  Proof. unfold rel_next. destruct (Nat.ltb _ _); eauto. Qed.

  (** The growth policy never yields an empty bucket array. *)
  Definition policy_ok : Prop := forall b s, next_buckets b s <> 0%N.

  Ltac quiet HC Ht Hth :=
    eapply frame_step with (1 := HC) (2 := Ht) (3 := Hth);
    [ lia | auto | auto | auto
    | cbn [own pc_node tpc]; tauto
    | cbn [pc_node tpc]; intros; split; intros Hq; inversion Hq; subst; auto
    | cbn [is_inc tpc]; lia
    | let Hl := fresh "Hl" in
      pose proof (C_local _ _ _ HC _ Ht) as Hl; rewrite Hth in Hl; unfold local_ok in *;
      cbn [tpc todo pc_node] in *; exact Hl ].

  Lemma step_InvC st hist chains t st' rs :
    policy_ok -> InvL st -> InvC st hist chains -> step st t = Some (st', rs) ->
    exists chains', InvC st' (hist ++ map (pair t) rs) chains'.
  Proof.
    intros Hpol HL HC H.
    pose proof (published_bound _ _ _ HC) as Hbound.
    assert (Hnd : NoDup (concat chains)) by (eapply NoDup_map_inv; apply (C_keys _ _ _ HC)).
    step_cases H;
      apply (nth_error_nth_lt _ _ _ dthread) in Hth as [Hth Ht];
      pose proof (C_local _ _ _ HC t Ht) as Hloc; rewrite Hth in Hloc; unfold local_ok in Hloc;
      cbn [tpc todo pc_node hd_error] in Hloc;
      cbn [map app]; rewrite ?app_nil_r;
      unfold set_thr, set_lane, set_bla, set_store, set_buckets, set_size;
      cbn [buckets store size bcount maxsz lanes bla threads].
    - (* lock *) exists chains. quiet HC Ht Hth.
    - (* load, found *)
      exists chains.
      set (b := bucket_of (bcount st) k) in *.
      assert (Hb : b < length (buckets st)).
      { rewrite (C_len _ _ _ HC). apply bucket_lt. apply (C_bc _ _ _ HC). }
      pose proof (search_spec (store st) k (nth b chains []) [] (nth b (buckets st) None) None (length (store st))) as Hs.
      rewrite app_nil_r in Hs. specialize (Hs (C_chain _ _ _ HC b Hb) eq_refl).
      rewrite Heqo in Hs.
      assert (Hcn : NoDup (nth b chains [])).
      { eapply NoDup_concat_in; eauto. apply nth_In. rewrite (C_clen _ _ _ HC). auto. }
      destruct Hs as [Hs1 Hs2]; auto.
      { apply NoDup_bounded_length; auto. intros x Hx. apply Hbound. eapply in_concat_nth; eauto. }
      eapply frame_step with (1 := HC) (2 := Ht) (3 := Hth);
        [lia | auto | auto | auto | cbn [own pc_node tpc]; tauto | | cbn [is_inc tpc]; lia | ].
      + cbn [pc_node tpc]. intros; split; intros Hq; inversion Hq.
      + unfold local_ok. cbn [tpc todo pc_node hd_error]. split; [|congruence].
        eapply in_concat_nth; eauto.
    - (* load, not found: the node is prepared *)
      exists chains.
      set (b := bucket_of (bcount st) k) in *.
      assert (Hb : b < length (buckets st)).
      { rewrite (C_len _ _ _ HC). apply bucket_lt. apply (C_bc _ _ _ HC). }
      pose proof (search_spec (store st) k (nth b chains []) [] (nth b (buckets st) None) None (length (store st))) as Hs.
      rewrite app_nil_r in Hs. specialize (Hs (C_chain _ _ _ HC b Hb) eq_refl).
      rewrite Heqo in Hs.
      assert (Hcn : NoDup (nth b chains [])).
      { eapply NoDup_concat_in; eauto. apply nth_In. rewrite (C_clen _ _ _ HC). auto. }
      specialize (Hs Hcn).
      assert (Hs' : ~ In k (map (keyof (store st)) (nth b chains []))).
      { apply Hs. apply NoDup_bounded_length; auto.
        intros x Hx. apply Hbound. eapply in_concat_nth; eauto. }
      assert (Hkeep : forall x, x < length (store st) ->
                nth x (store st ++ [mkNode k (nth b (buckets st) None)]) dnode = nth x (store st) dnode).
      { intros x Hx. apply app_nth1. auto. }
      eapply frame_step with (1 := HC) (2 := Ht) (3 := Hth);
        [ | | auto | auto | | | cbn [is_inc tpc]; lia | ].
      + rewrite app_length. lia.
      + intros x Hx. unfold keyof. rewrite Hkeep; auto.
      + cbn [own pc_node tpc]. right. right. auto.
      + cbn [pc_node tpc]. intros; split; intros Hq; inversion Hq.
      + unfold local_ok. cbn [tpc todo hd_error].
        assert (Hnew : nth (length (store st)) (store st ++ [mkNode k (nth b (buckets st) None)]) dnode
                       = mkNode k (nth b (buckets st) None)).
        { rewrite app_nth2 by lia. rewrite Nat.sub_diag. reflexivity. }
        unfold keyof at 1 2 3. rewrite Hnew. cbn [nkey nnext].
        repeat split; auto.
        * rewrite app_length. simpl. lia.
        * intros Hi. apply Hbound in Hi. lia.
        * exists [], (nth b chains []). split; auto. split.
          -- symmetry. eapply is_chain_hd. apply (C_chain _ _ _ HC b Hb).
          -- rewrite (map_ext_in _ (keyof (store st))); auto.
             intros x Hx. unfold keyof. rewrite Hkeep; auto. apply Hbound.
             eapply in_concat_nth; eauto.
    - (* CAS succeeds *)
      apply oeqb_true in Heqb0.
      eexists. eapply cas_success_step; eauto.
    - (* CAS fails, the key is found among the new nodes *)
      exists chains.
      destruct Hloc as (H1 & H2 & H3 & H4 & H5 & pre & suf & H6 & H7 & H8).
      assert (Hk : k = keyof (store st) id) by congruence.
      assert (Hb : b < length (buckets st)).
      { rewrite H5, (C_len _ _ _ HC). apply bucket_lt. apply (C_bc _ _ _ HC). }
      assert (Hcn : NoDup (nth b chains [])).
      { eapply NoDup_concat_in; eauto. apply nth_In. rewrite (C_clen _ _ _ HC). auto. }
      pose proof (C_chain _ _ _ HC b Hb) as Hch. rewrite H6 in Hch, Hcn.
      pose proof (search_spec (store st) k pre suf (nth b (buckets st) None) lkh (length (store st)) Hch H7 Hcn) as Hs.
      rewrite Heqo in Hs. destruct Hs as [Hs1 Hs2].
      { apply NoDup_app_inv in Hcn. apply NoDup_bounded_length; [tauto|].
        intros x Hx. apply Hbound. apply (in_concat_nth _ b). rewrite H6. apply in_or_app; auto. }
      assert (Hkey : forall x, keyof (setn (store st) id (mkNode k None)) x = keyof (store st) x).
      { intros x. unfold keyof. rewrite nth_setn.
        destruct (Nat.eqb id x && Nat.ltb x (length (store st)))%bool eqn:E; auto.
        assert (x = id) by lia. subst x. cbn [nkey]. auto. }
      eapply frame_step with (1 := HC) (2 := Ht) (3 := Hth);
        [ | intros; apply Hkey | | | cbn [own pc_node tpc]; tauto | | cbn [is_inc tpc]; lia | ].
      + rewrite length_setn. lia.
      + intros x Hx Hp. apply nth_setn_neq. intros <-. auto.
      + cbn [own tpc]. intros x Hx Hne. apply nth_setn_neq. congruence.
      + cbn [pc_node tpc]. intros; split; intros Hq; inversion Hq.
      + unfold local_ok. cbn [tpc todo pc_node hd_error]. rewrite Hkey. split; [|congruence].
        apply (in_concat_nth _ b). rewrite H6. apply in_or_app; auto.
    - (* CAS fails, not found: retry with the new head *)
      exists chains.
      destruct Hloc as (H1 & H2 & H3 & H4 & H5 & pre & suf & H6 & H7 & H8).
      assert (Hk : k = keyof (store st) id) by congruence.
      assert (Hb : b < length (buckets st)).
      { rewrite H5, (C_len _ _ _ HC). apply bucket_lt. apply (C_bc _ _ _ HC). }
      assert (Hcn : NoDup (nth b chains [])).
      { eapply NoDup_concat_in; eauto. apply nth_In. rewrite (C_clen _ _ _ HC). auto. }
      pose proof (C_chain _ _ _ HC b Hb) as Hch. rewrite H6 in Hch, Hcn.
      pose proof (search_spec (store st) k pre suf (nth b (buckets st) None) lkh (length (store st)) Hch H7 Hcn) as Hs.
      rewrite Heqo in Hs.
      assert (Hs' : ~ In k (map (keyof (store st)) pre)).
      { apply Hs. apply NoDup_app_inv in Hcn. apply NoDup_bounded_length; [tauto|].
        intros x Hx. apply Hbound. apply (in_concat_nth _ b). rewrite H6. apply in_or_app; auto. }
      set (cur := nth b (buckets st) None) in *.
      assert (Hkey : forall x, keyof (setn (store st) id (mkNode k cur)) x = keyof (store st) x).
      { intros x. unfold keyof. rewrite nth_setn.
        destruct (Nat.eqb id x && Nat.ltb x (length (store st)))%bool eqn:E; auto.
        assert (x = id) by lia. subst x. cbn [nkey]. auto. }
      eapply frame_step with (1 := HC) (2 := Ht) (3 := Hth);
        [ | intros; apply Hkey | | | cbn [own pc_node tpc]; tauto | | cbn [is_inc tpc]; lia | ].
      + rewrite length_setn. lia.
      + intros x Hx Hp. apply nth_setn_neq. intros <-. auto.
      + cbn [own tpc]. intros x Hx Hne. apply nth_setn_neq. congruence.
      + cbn [pc_node tpc]. intros; split; intros Hq; inversion Hq.
      + unfold local_ok. cbn [tpc todo hd_error]. rewrite length_setn, !Hkey.
        rewrite nth_setn_eq by auto. cbn [nnext].
        repeat split; auto.
        exists [], (pre ++ suf). split; [auto|]. split.
        * symmetry. eapply is_chain_hd. exact Hch.
        * rewrite (map_ext _ _ Hkey). rewrite map_app. intros Hi. rewrite <- Hk in *.
          apply in_app_or in Hi as [Hi|Hi]; auto.
    - (* ++Size, must grow *)
      exists chains. quiet HC Ht Hth.
    - (* ++Size, no growth *)
      exists chains. quiet HC Ht Hth.
    - exists chains. quiet HC Ht Hth.
    - exists chains. quiet HC Ht Hth.
    - exists chains. quiet HC Ht Hth.
    - exists chains. quiet HC Ht Hth.
    - exists chains. quiet HC Ht Hth.
    - exists chains. quiet HC Ht Hth.
    - exists chains.
      destruct (acq_next_cases (length (lanes st)) t id 0) as [-> | [j ->]]; quiet HC Ht Hth.
    - exists chains. quiet HC Ht Hth.
    - exists chains.
      destruct (acq_next_cases (length (lanes st)) t id (S i)) as [-> | [j ->]]; quiet HC Ht Hth.
    - (* rehash *)
      destruct (rehash_step st hist chains t (k :: rest) id HL HC Ht Hth (Hpol _ _))
        as (ch' & HC' & _). exists ch'. exact HC'.
    - exists chains.
      destruct (rel_next_cases (length (lanes st)) t id 0) as [-> | [j ->]]; quiet HC Ht Hth.
    - exists chains.
      destruct (rel_next_cases (length (lanes st)) t id (S i)) as [-> | [j ->]]; quiet HC Ht Hth.
    - (* return *)
      exists chains. eapply unlock_step; eauto.
  Qed.

  (** * Reachable states *)

  Inductive reach_h (nb0 mx0 : N) (progs : list (list N)) : state -> list (nat * response) -> Prop :=
  | rh_init : reach_h nb0 mx0 progs (init nb0 mx0 progs) []
  | rh_step st h t st' rs :
      reach_h nb0 mx0 progs st h -> step st t = Some (st', rs) ->
      reach_h nb0 mx0 progs st' (h ++ map (pair t) rs).

  Lemma init_pcof nb0 mx0 progs t : pcof (init nb0 mx0 progs) t = PIdle.
  Proof.
    unfold pcof, init. cbn [threads].
    rewrite (nth_map_default _ _ _ []) by reflexivity. reflexivity.
  Qed.

  Lemma init_InvL nb0 mx0 progs : InvL (init nb0 mx0 progs).
  Proof.
    constructor.
    - unfold init. cbn. rewrite !map_length. auto.
    - intros i t Hi. rewrite init_pcof. cbn [holds]. unfold init. cbn [lanes].
      rewrite (nth_map_default _ _ _ []) by reflexivity.
      split; discriminate.
    - intros t. rewrite init_pcof. cbn. split; discriminate.
    - intros t Ht. rewrite init_pcof. exact I.
  Qed.

  Lemma init_InvC nb0 mx0 progs : nb0 <> 0%N ->
    InvC (init nb0 mx0 progs) [] (repeat [] (N.to_nat nb0)).
  Proof.
    intros Hnz.
    constructor; rewrite ?concat_repeat_nil.
    - exact Hnz.
    - cbn. apply repeat_length.
    - cbn. rewrite !repeat_length. auto.
    - cbn [init buckets store]. rewrite repeat_length. intros b Hb. rewrite nth_repeat' by auto.
      rewrite nth_repeat_nil. reflexivity.
    - constructor.
    - intros b id. rewrite nth_repeat_nil. intros [].
    - intros t Ht. pose proof (init_pcof nb0 mx0 progs t) as Hp. unfold pcof in Hp.
      unfold local_ok. rewrite Hp. exact I.
    - intros t t' i _ _ _. rewrite init_pcof. discriminate.
    - cbn [init size threads length]. rewrite countp_zero; auto.
      induction progs; simpl; auto.
    - intros r [].
    - constructor.
    - intros t id _. rewrite init_pcof. discriminate.
    - intros id [].
  Qed.

  Theorem reach_inv nb0 mx0 progs st h :
    policy_ok -> nb0 <> 0%N -> reach_h nb0 mx0 progs st h ->
    InvL st /\ exists chains, InvC st h chains.
  Proof.
    intros Hpol Hnz Hr. induction Hr.
    - split; [apply init_InvL|]. eexists. apply init_InvC. auto.
    - destruct IHHr as [HL [chains HC]]. split.
      + eapply step_InvL; eauto.
      + eapply step_InvC; eauto.
  Qed.

  Lemma exec_reach nb0 mx0 progs sched : forall st h s out stp,
    reach_h nb0 mx0 progs st h -> exec st sched = (s, out, stp) ->
    reach_h nb0 mx0 progs s (h ++ out).
  Proof.
    induction sched as [|t r IH]; intros st h s out stp Hr He; simpl in He.
    - inversion He; subst. rewrite app_nil_r. auto.
    - destruct (step st t) as [[st' rs]|] eqn:Es.
      + destruct (exec st' r) as [[s1 out1] stp1] eqn:Ee. inversion He; subst.
        rewrite app_assoc. eapply IH; eauto. econstructor; eauto.
      + eapply IH; eauto.
  Qed.

  Lemma run_reach nb0 mx0 progs sched s out :
    run hash next_buckets next_max nb0 mx0 progs sched = (s, out) -> reach_h nb0 mx0 progs s out.
  Proof.
    unfold run. intros H. destruct (exec (init nb0 mx0 progs) sched) as [[s1 out1] stp] eqn:E.
    simpl in H. inversion H; subst. change out with ([] ++ out).
    eapply exec_reach; eauto. constructor.
  Qed.

  (** * The theorems *)

  (** A node is published when it can be reached from some bucket head by following [Next]. *)
  Definition published (st : state) (id : nat) : Prop :=
    exists b, reach (store st) (nth b (buckets st) None) id.

  Lemma published_iff st h chains : InvC st h chains ->
    forall id, published st id <-> In id (concat chains).
  Proof.
    intros HC id. split.
    - intros [b Hr]. destruct (Nat.lt_ge_cases b (length (buckets st))) as [Hb|Hb].
      + apply (reach_chain _ _ _ (C_chain _ _ _ HC b Hb)) in Hr. eapply in_concat_nth; eauto.
      + rewrite nth_overflow in Hr by auto. inversion Hr.
    - intros Hi. apply in_concat_inv in Hi as (b & Hb & Hi). exists b.
      rewrite (C_clen _ _ _ HC) in Hb. apply (reach_chain _ _ _ (C_chain _ _ _ HC b Hb)). auto.
  Qed.

  Lemma NoDup_map_inj {A B} (f : A -> B) l x y :
    NoDup (map f l) -> In x l -> In y l -> f x = f y -> x = y.
  Proof.
    induction l as [|a l IH]; simpl; intros Hn Hx Hy He; [contradiction|].
    inversion Hn; subst. destruct Hx as [<-|Hx], Hy as [<-|Hy]; auto.
    - exfalso. apply H1. rewrite He. apply in_map. auto.
    - exfalso. apply H1. rewrite <- He. apply in_map. auto.
  Qed.

  (** (a) In every reachable state: no key occurs in two published nodes; a node reachable from
      bucket [b] has a key that hashes to [b] (so no node is in two buckets); the bucket array has
      BucketCount entries; every bucket list is finite, ends in the null pointer and repeats no
      node. *)
  Theorem bucket_nodup nb0 mx0 progs st h :
    policy_ok -> nb0 <> 0%N -> reach_h nb0 mx0 progs st h ->
    (forall id1 id2, published st id1 -> published st id2 ->
                     keyof (store st) id1 = keyof (store st) id2 -> id1 = id2)
    /\ (forall b id, reach (store st) (nth b (buckets st) None) id ->
                     b = bucket_of (bcount st) (keyof (store st) id))
    /\ length (buckets st) = N.to_nat (bcount st)
    /\ (forall b, b < length (buckets st) ->
                  exists l, is_chain (store st) (nth b (buckets st) None) l /\ NoDup l).
  Proof.
    intros Hpol Hnz Hr. destruct (reach_inv _ _ _ _ _ Hpol Hnz Hr) as [HL [chains HC]].
    assert (Hnd : NoDup (concat chains)) by (eapply NoDup_map_inv; apply (C_keys _ _ _ HC)).
    split; [|split; [|split]].
    - intros id1 id2 H1 H2 He. apply (published_iff _ _ _ HC) in H1, H2.
      apply (NoDup_map_inj (keyof (store st)) (concat chains)); auto. apply (C_keys _ _ _ HC).
    - intros b id Hre. destruct (Nat.lt_ge_cases b (length (buckets st))) as [Hb|Hb].
      + apply (reach_chain _ _ _ (C_chain _ _ _ HC b Hb)) in Hre.
        symmetry. apply (C_place _ _ _ HC). auto.
      + rewrite nth_overflow in Hre by auto. inversion Hre.
    - apply (C_len _ _ _ HC).
    - intros b Hb. exists (nth b chains []). split; [apply (C_chain _ _ _ HC); auto|].
      eapply NoDup_concat_in; eauto. apply nth_In. rewrite (C_clen _ _ _ HC). auto.
  Qed.

  Definition ins_count (h : list (nat * response)) (k : N) : nat :=
    length (filter (fun r => N.eqb (rkey r) k && rins r) h).

  Lemma count_le_1 {R} (l : list R) (f : R -> nat) (p q : R -> bool) :
    NoDup (map f (filter p l)) ->
    (forall x y, In x l -> In y l -> q x = true -> q y = true -> f x = f y) ->
    length (filter (fun r => q r && p r) l) <= 1.
  Proof.
    induction l as [|a l IH]; simpl; intros Hn Hq; [lia|].
    destruct (p a) eqn:Ep.
    - simpl in Hn. inversion Hn; subst. destruct (q a) eqn:Eq; simpl.
      + destruct (filter (fun r => q r && p r) l) as [|y ys] eqn:Ef; [simpl; lia|].
        exfalso. assert (Hy : In y (filter (fun r => q r && p r) l)) by (rewrite Ef; left; auto).
        apply filter_In in Hy as [Hy1 Hy2]. apply andb_true_iff in Hy2 as [Hy2 Hy3].
        apply H1. rewrite (Hq a y); auto. apply in_map. apply filter_In. auto.
      + apply IH; auto.
    - rewrite andb_false_r. apply IH; auto.
  Qed.

  Lemma quiescent_todo st t : quiescent st = true -> todo (nth t (threads st) dthread) = [].
  Proof.
    unfold quiescent. intros H. rewrite forallb_forall in H.
    destruct (Nat.lt_ge_cases t (length (threads st))) as [Ht|Ht].
    - specialize (H _ (nth_In _ dthread Ht)). destruct (todo _); auto. discriminate.
    - rewrite nth_overflow by auto. reflexivity.
  Qed.

  (** (b) Over the responses of any reachable state: equal keys got the same node and different
      keys different nodes; the returned node is published and carries the key; at most one
      response per key reports [inserted = true], and exactly one once all threads are done. *)
  Theorem get_unique_node nb0 mx0 progs st h :
    policy_ok -> nb0 <> 0%N -> reach_h nb0 mx0 progs st h ->
    (forall r1 r2, In r1 h -> In r2 h -> (rkey r1 = rkey r2 <-> rnode r1 = rnode r2))
    /\ (forall r, In r h -> published st (rnode r) /\ keyof (store st) (rnode r) = rkey r)
    /\ (forall r, In r h -> ins_count h (rkey r) <= 1)
    /\ (quiescent st = true -> forall r, In r h -> ins_count h (rkey r) = 1).
  Proof.
    intros Hpol Hnz Hr. destruct (reach_inv _ _ _ _ _ Hpol Hnz Hr) as [HL [chains HC]].
    assert (Huniq : forall r1 r2, In r1 h -> In r2 h -> (rkey r1 = rkey r2 <-> rnode r1 = rnode r2)).
    { intros r1 r2 H1 H2. destruct (C_r1 _ _ _ HC r1 H1) as [A1 B1].
      destruct (C_r1 _ _ _ HC r2 H2) as [A2 B2]. split; intros E.
      - apply (NoDup_map_inj (keyof (store st)) (concat chains)); auto.
        apply (C_keys _ _ _ HC). congruence.
      - congruence. }
    assert (Hle : forall r, In r h -> ins_count h (rkey r) <= 1).
    { intros r Hin. unfold ins_count. apply (count_le_1 h rnode rins (fun r' => N.eqb (rkey r') (rkey r))).
      - apply (C_r2 _ _ _ HC).
      - intros x y Hx Hy Ex Ey. apply N.eqb_eq in Ex, Ey. apply Huniq; auto. congruence. }
    split; [exact Huniq|]. split; [|split; [exact Hle|]].
    - intros r Hin. destruct (C_r1 _ _ _ HC r Hin). split; auto.
      apply (published_iff _ _ _ HC). auto.
    - intros Hq r Hin. specialize (Hle r Hin).
      destruct (C_r1 _ _ _ HC r Hin) as [A B].
      destruct (C_r4 _ _ _ HC _ A) as [Ht|(t & Ht & Hn)].
      + unfold true_ids in Ht. apply in_map_iff in Ht as (r' & Er & Hr').
        apply filter_In in Hr' as [Hr1 Hr2].
        assert (Hk : rkey r' = rkey r) by (apply Huniq; auto).
        assert (Hin' : In r' (filter (fun r0 => N.eqb (rkey r0) (rkey r) && rins r0) h)).
        { apply filter_In. split; auto. rewrite Hk, N.eqb_refl, Hr2. reflexivity. }
        unfold ins_count in *. destruct (filter _ h); [destruct Hin'|simpl in *; lia].
      + exfalso. pose proof (C_local _ _ _ HC t Ht) as Hl. unfold local_ok in Hl.
        unfold pcof in Hn. rewrite (quiescent_todo st t Hq) in Hl.
        destruct (tpc (nth t (threads st) dthread)); cbn [pc_node] in Hn, Hl; try discriminate;
          destruct Hl as [_ Hl]; discriminate.
  Qed.

  (** (c) The rehash step of a grower [g]: every other thread is outside its lock(H)..unlock(H)
      window (in particular none is between its head load and its CAS); the step preserves the
      set of published nodes and their keys; and the new state satisfies the bucket invariant for
      the new BucketCount (it is reachable, so [bucket_nodup] applies to it). *)
  Theorem grow_preserves nb0 mx0 progs st h g id :
    policy_ok -> nb0 <> 0%N -> reach_h nb0 mx0 progs st h ->
    g < length (threads st) -> pcof st g = PRehash id ->
    (forall t, t < length (threads st) -> t <> g -> outside (pcof st t))
    /\ exists st', step st g = Some (st', [])
         /\ reach_h nb0 mx0 progs st' h
         /\ (forall x, published st' x <-> published st x)
         /\ (forall x, keyof (store st') x = keyof (store st) x)
         /\ bcount st' = next_buckets (bcount st) (size st).
  Proof.
    intros Hpol Hnz Hr Hg Hp. destruct (reach_inv _ _ _ _ _ Hpol Hnz Hr) as [HL [chains HC]].
    split; [intros t Ht Hne; apply (rehash_exclusive st g id HL Hg Hp t Ht Hne)|].
    unfold pcof in Hp.
    destruct (nth g (threads st) dthread) as [td p] eqn:Hth. cbn [tpc] in Hp. subst p.
    pose proof (C_local _ _ _ HC g Hg) as Hl. rewrite Hth in Hl. unfold local_ok in Hl.
    cbn [tpc todo pc_node] in Hl. destruct td as [|k rest]; [destruct Hl; discriminate|].
    assert (Hnth : nth_error (threads st) g = Some (mkThread (k :: rest) (PRehash id))).
    { rewrite <- Hth. apply List.nth_error_nth'. auto. }
    assert (Hs : step st g = Some (set_thr (rehash st) g (mkThread (k :: rest) (PRelBLA id)), [])).
    { unfold HashMapDefs.step. rewrite Hnth. reflexivity. }
    destruct (rehash_step st h chains g (k :: rest) id HL HC Hg Hth (Hpol _ _))
      as (ch' & HC' & Hperm & Hkey & Hbc).
    eexists. split; [exact Hs|]. split; [|split; [|split]].
    - rewrite <- (app_nil_r h). change (@nil (nat * response)) with (map (pair g) (@nil response)).
      econstructor; eauto.
    - intros x. rewrite (published_iff _ _ _ HC'), (published_iff _ _ _ HC).
      split; apply Permutation_in; auto. symmetry; auto.
    - exact Hkey.
    - exact Hbc.
  Qed.

  (** (d) Size equals the number of published nodes whenever no thread is between its successful
      CAS and its increment. *)
  Theorem size_counts_published nb0 mx0 progs st h :
    policy_ok -> nb0 <> 0%N -> reach_h nb0 mx0 progs st h ->
    existsb is_inc (threads st) = false ->
    exists ids, NoDup ids /\ (forall x, In x ids <-> published st x)
                /\ N.to_nat (size st) = length ids.
  Proof.
    intros Hpol Hnz Hr Hi. destruct (reach_inv _ _ _ _ _ Hpol Hnz Hr) as [HL [chains HC]].
    exists (concat chains). split; [eapply NoDup_map_inv; apply (C_keys _ _ _ HC)|]. split.
    - intros x. symmetry. apply (published_iff _ _ _ HC).
    - pose proof (C_size _ _ _ HC) as Hs. rewrite (countp_zero _ _ Hi) in Hs. lia.
  Qed.

  (** ** Responses follow the programs *)

  Definition of_thread (t : nat) (r : nat * response) : bool := Nat.eqb (fst r) t.

  (** The keys in thread [t]'s responses, in order, followed by what it still has to do, are its
      program: a response's key is the key the thread was asked to [get]. *)
  Theorem responses_follow_program nb0 mx0 progs st h : reach_h nb0 mx0 progs st h ->
    length (threads st) = length progs /\
    forall t, map rkey (filter (of_thread t) h) ++ todo (nth t (threads st) dthread) = nth t progs [].
  Proof.
    intros Hr. induction Hr.
    - split; [cbn; apply map_length|]. intros t. cbn [init threads filter map app].
      rewrite (nth_map_default _ _ _ []) by reflexivity. reflexivity.
    - destruct IHHr as [IHl IH]. rename H into Hs.
      assert (Hcases : (rs = [] /\ length (threads st') = length (threads st) /\
                        forall t0, todo (nth t0 (threads st') dthread) = todo (nth t0 (threads st) dthread))
                       \/ (exists k id ins, rs = [RGet k id ins] /\ length (threads st') = length (threads st) /\
                           todo (nth t (threads st) dthread) = k :: todo (nth t (threads st') dthread) /\
                           forall t0, t0 <> t -> nth t0 (threads st') dthread = nth t0 (threads st) dthread)).
      { step_cases Hs; apply (nth_error_nth_lt _ _ _ dthread) in Hth as [Hth Ht];
          try (pose proof (rehash_locks st) as (_ & _ & Hr3));
          unfold set_thr, set_lane, set_bla, set_store, set_buckets, set_size;
          cbn [buckets store size bcount maxsz lanes bla threads]; try rewrite Hr3.
        all: try (left; split; [reflexivity|]; split; [apply length_setn|];
                  intros t0; rewrite nth_setn;
                  destruct (Nat.eqb t t0 && Nat.ltb t0 (length (threads st)))%bool eqn:E; auto;
                  assert (t0 = t) by lia; subst t0; rewrite Hth; reflexivity).
        right. exists k, id, ins. split; [reflexivity|]. split; [apply length_setn|].
        rewrite nth_setn_eq by auto. rewrite Hth. split; [reflexivity|].
        intros t0 Hne. apply nth_setn_neq. auto. }
      destruct Hcases as [(-> & Hl & Ht) | (k & id & ins & -> & Hl & Hk & Hoth)].
      + split; [congruence|]. intros t0. cbn [map]. rewrite app_nil_r, Ht. apply IH.
      + split; [congruence|]. intros t0. rewrite filter_app, map_app. cbn [map filter].
        unfold of_thread at 2. cbn [fst].
        destruct (Nat.eqb t t0) eqn:E.
        * apply Nat.eqb_eq in E. subst t0. cbn [map rkey snd]. rewrite <- app_assoc. cbn [app].
          rewrite <- Hk. apply IH.
        * cbn [map]. rewrite app_nil_r, Hoth by lia. apply IH.
  Qed.

  (** ** Soundness of the exhaustive exploration *)

  Lemma dedup_in l c : In c l -> In c (dedup l).
  Proof.
    induction l as [|a l IH]; simpl; intros Hc; [contradiction|].
    unfold insert_new. destruct (existsb _ (dedup l)) eqn:E.
    - destruct Hc as [<-|Hc]; auto.
      apply existsb_exists in E as (c' & Hc' & Hd). destruct (config_eq_dec a c'); [subst; auto|discriminate].
    - destruct Hc as [<-|Hc]; [left; auto | right; auto].
  Qed.

  Lemma succs_in st rs t st' out : step st t = Some (st', out) ->
    In (st', rs ++ map (pair t) out) (succs hash next_buckets next_max (st, rs)).
  Proof.
    intros Hs. unfold succs. apply in_flat_map. exists t. split.
    - apply in_seq. unfold HashMapDefs.step in Hs.
      destruct (nth_error (threads st) t) eqn:E; [|discriminate].
      assert (t < length (threads st)) by (apply nth_error_Some; congruence). lia.
    - rewrite Hs. left. reflexivity.
  Qed.

  Lemma explore_sound sched : forall fuel layer st rs s out stp,
    explore hash next_buckets next_max fuel layer = true -> In (st, rs) layer ->
    exec st sched = (s, out, stp) ->
    mon hash s (rs ++ out) = true /\ stuck hash next_buckets next_max (s, rs ++ out) = false.
  Proof.
    induction sched as [|t r IH]; intros fuel layer st rs s out stp He Hin Hx.
    - simpl in Hx. inversion Hx; subst. rewrite app_nil_r.
      destruct fuel; simpl in He; apply andb_true_iff in He as [He _];
        rewrite forallb_forall in He; specialize (He _ Hin); cbn [fst snd] in He;
        apply andb_true_iff in He as [H1 H2]; apply negb_true_iff in H2; auto.
    - simpl in Hx. destruct (step st t) as [[st' rs']|] eqn:Es; [|eapply IH; eauto].
      destruct (exec st' r) as [[s1 out1] stp1] eqn:Ee. inversion Hx; subst.
      assert (He' : exists f, fuel = S f /\ explore hash next_buckets next_max f (next_layer hash next_buckets next_max layer) = true).
      { destruct layer; [destruct Hin|]. destruct fuel; simpl in He; apply andb_true_iff in He as [_ He];
          [discriminate | eauto]. }
      destruct He' as (f & -> & He'). rewrite app_assoc.
      eapply IH; [exact He' | | exact Ee].
      unfold next_layer. apply dedup_in. apply in_flat_map. exists (st, rs). split; auto.
      apply succs_in. auto.
  Qed.

  (** ** The same statements for [run], i.e. for every schedule *)

  (** (a) as a predicate on states. *)
  Definition shape_ok (st : state) : Prop :=
    (forall id1 id2, published st id1 -> published st id2 ->
                     keyof (store st) id1 = keyof (store st) id2 -> id1 = id2)
    /\ (forall b id, reach (store st) (nth b (buckets st) None) id ->
                     b = bucket_of (bcount st) (keyof (store st) id))
    /\ length (buckets st) = N.to_nat (bcount st)
    /\ (forall b, b < length (buckets st) ->
                  exists l, is_chain (store st) (nth b (buckets st) None) l /\ NoDup l).

  (** (b) as a predicate on a state and the responses produced so far. *)
  Definition resp_ok (st : state) (h : list (nat * response)) : Prop :=
    (forall r1 r2, In r1 h -> In r2 h -> (rkey r1 = rkey r2 <-> rnode r1 = rnode r2))
    /\ (forall r, In r h -> published st (rnode r) /\ keyof (store st) (rnode r) = rkey r)
    /\ (forall r, In r h -> ins_count h (rkey r) <= 1)
    /\ (quiescent st = true -> forall r, In r h -> ins_count h (rkey r) = 1).

  Theorem run_shape_ok nb0 mx0 progs sched : policy_ok -> nb0 <> 0%N ->
    shape_ok (fst (run hash next_buckets next_max nb0 mx0 progs sched)).
  Proof.
    intros Hp Hn. destruct (run _ _ _ nb0 mx0 progs sched) as [s out] eqn:E.
    apply run_reach in E. eapply bucket_nodup; eauto.
  Qed.

  Theorem run_resp_ok nb0 mx0 progs sched : policy_ok -> nb0 <> 0%N ->
    resp_ok (fst (run hash next_buckets next_max nb0 mx0 progs sched))
            (snd (run hash next_buckets next_max nb0 mx0 progs sched)).
  Proof.
    intros Hp Hn. destruct (run _ _ _ nb0 mx0 progs sched) as [s out] eqn:E.
    apply run_reach in E. eapply get_unique_node; eauto.
  Qed.

  Theorem run_responses_follow_program nb0 mx0 progs sched t :
    let '(st, h) := run hash next_buckets next_max nb0 mx0 progs sched in
    map rkey (filter (of_thread t) h) ++ todo (nth t (threads st) dthread) = nth t progs [].
  Proof.
    destruct (run _ _ _ nb0 mx0 progs sched) as [s out] eqn:E.
    apply run_reach in E. apply responses_follow_program in E. apply E.
  Qed.

  Theorem run_size_counts_published nb0 mx0 progs sched : policy_ok -> nb0 <> 0%N ->
    let st := fst (run hash next_buckets next_max nb0 mx0 progs sched) in
    existsb is_inc (threads st) = false ->
    exists ids, NoDup ids /\ (forall x, In x ids <-> published st x)
                /\ N.to_nat (size st) = length ids.
  Proof.
    intros Hp Hn. destruct (run _ _ _ nb0 mx0 progs sched) as [s out] eqn:E.
    apply run_reach in E. cbn [fst]. eapply size_counts_published; eauto.
  Qed.

  (** (c) for [run]: whenever a schedule leads to a state where thread [g] is about to rehash. *)
  Theorem run_grow_preserves nb0 mx0 progs sched g id : policy_ok -> nb0 <> 0%N ->
    let st := fst (run hash next_buckets next_max nb0 mx0 progs sched) in
    g < length (threads st) -> pcof st g = PRehash id ->
    (forall t, t < length (threads st) -> t <> g -> outside (pcof st t))
    /\ exists st', step st g = Some (st', [])
         /\ (forall x, published st' x <-> published st x)
         /\ (forall x, keyof (store st') x = keyof (store st) x)
         /\ bcount st' = next_buckets (bcount st) (size st)
         /\ shape_ok st'.
  Proof.
    intros Hp Hn. destruct (run _ _ _ nb0 mx0 progs sched) as [s out] eqn:E.
    apply run_reach in E. cbn [fst]. intros Hg Hpc.
    destruct (grow_preserves _ _ _ _ _ _ _ Hp Hn E Hg Hpc) as (H1 & st' & H2 & H3 & H4 & H5 & H6).
    split; auto. exists st'. repeat split; auto; try apply H4.
    all: eapply bucket_nodup; eauto.
  Qed.
End Proofs.

(** * Bounded exhaustive checks (every interleaving, by exploration of the state graph) *)

Local Open Scope N_scope.
Definition hash4 (k : N) : N := k mod 4.
Definition grow_b (b s : N) : N := 2 * b + 1.
Definition grow_m (m nb : N) : N := 2 * m + 1.

Lemma grow_b_ok : policy_ok grow_b.
Proof. intros b s. unfold grow_b. lia. Qed.

Lemma explore_run progs nb0 mx0 fuel :
  explore hash4 grow_b grow_m fuel [(init nb0 mx0 progs, [])] = true ->
  forall sched,
    let '(st, rs) := run hash4 grow_b grow_m nb0 mx0 progs sched in
    mon hash4 st rs = true /\ stuck hash4 grow_b grow_m (st, rs) = false.
Proof.
  intros He sched. unfold run.
  destruct (exec hash4 grow_b grow_m (init nb0 mx0 progs) sched) as [[s out] stp] eqn:E.
  cbn [fst]. change out with ([] ++ out).
  eapply explore_sound; eauto. left. reflexivity.
Qed.

(** Two threads, two [get]s each; keys 5, 9, 13 collide in one bucket before and after the
    growth (hash k = k mod 4; 1 bucket, MaxSizeBeforeGrow 1, so the second insertion grows the map
    to 3 buckets); both threads ask for key 5. Every schedule, of any length. *)
Theorem exhaustive_2x2_one_growth : forall sched,
  let '(st, rs) := run hash4 grow_b grow_m 1 1 [[5; 9]; [5; 13]] sched in
  mon hash4 st rs = true /\ stuck hash4 grow_b grow_m (st, rs) = false.
Proof. apply (explore_run _ _ _ 100%nat). vm_compute. reflexivity. Qed.

(** Two threads, three [get]s each over the colliding keys 5, 9, 13 in opposite orders, 1 bucket
    and MaxSizeBeforeGrow 0: every one of the first insertions wants to grow, so both threads
    contend for BeforeLockAll (the yield / wait / re-lock path), and the map grows twice. *)
Theorem exhaustive_2x3_contended_growth : forall sched,
  let '(st, rs) := run hash4 grow_b grow_m 1 0 [[5; 9; 13]; [9; 5; 13]] sched in
  mon hash4 st rs = true /\ stuck hash4 grow_b grow_m (st, rs) = false.
Proof. apply (explore_run _ _ _ 150%nat). vm_compute. reflexivity. Qed.

(** Three threads (lockAllBut takes two other lanes), one [get] each, two of them for the same key. *)
Theorem exhaustive_3x1_growth : forall sched,
  let '(st, rs) := run hash4 grow_b grow_m 1 1 [[5]; [9]; [5]] sched in
  mon hash4 st rs = true /\ stuck hash4 grow_b grow_m (st, rs) = false.
Proof. apply (explore_run _ _ _ 100%nat). vm_compute. reflexivity. Qed.

(** * Examples *)

(** The hypotheses of the general theorems are satisfiable: the policy used by the driver never
    yields zero buckets, and the schedule below reaches a state in which thread 0 is about to
    rehash (so [grow_preserves] / [run_grow_preserves] apply to it non-vacuously). *)
Example policy_instance : policy_ok grow_b /\ 1 <> 0.
Proof. split; [exact grow_b_ok | discriminate]. Qed.

Definition sched_to_rehash : list nat := [0; 0; 0; 0; 0; 0; 0; 0; 0; 0; 0; 0]%nat.

Example reaches_rehash :
  let st := fst (run hash4 grow_b grow_m 1 1 [[5; 9]; [13]] sched_to_rehash) in
  (0 < length (threads st))%nat /\ pcof st 0%nat = PRehash 1%nat
  /\ existsb is_inc (threads st) = false.
Proof. vm_compute. repeat split; auto. Qed.

(** (g) Growth while another thread waits for its lane: thread 0 holds every lane and is about
    to rehash; thread 1 (idle, wants to start [get 13]) cannot take its lane; after the rehash
    and the releases it can, and it finds the grown table (3 buckets). *)
Example growth_blocks_other_lane :
  let st := fst (run hash4 grow_b grow_m 1 1 [[5; 9]; [13]] sched_to_rehash) in
  lanes st = [Some 0%nat; Some 0%nat] /\ bcount st = 1
  /\ step hash4 grow_b grow_m st 1%nat = None
  /\ run_steps hash4 grow_b grow_m 1 1 [[5; 9]; [13]] (sched_to_rehash ++ [1; 1; 0; 1; 0; 1; 0; 1])%nat
     = (sched_to_rehash ++ [0; 0; 0; 1])%nat
  /\ let st2 := fst (run hash4 grow_b grow_m 1 1 [[5; 9]; [13]] (sched_to_rehash ++ [1; 1; 0; 1; 0; 1; 0; 1])%nat) in
     bcount st2 = 3 /\ pcof st2 1%nat = PLocked /\ lanes st2 = [Some 0%nat; Some 1%nat].
Proof. vm_compute. repeat split; reflexivity. Qed.

(** (g) A CAS fails and the second search round finds the equal key that the other thread
    inserted in the meantime: thread 1 returns thread 0's node with inserted = false. Both
    threads have loaded the (empty) head and prepared their own nodes 0 and 1 before thread 0's
    CAS succeeds. *)
Example cas_fails_then_finds_equal_key :
  let r5 := run hash4 grow_b grow_m 3 3 [[5]; [5]] [0; 1; 0; 1; 0]%nat in
  let r6 := run hash4 grow_b grow_m 3 3 [[5]; [5]] [0; 1; 0; 1; 0; 1]%nat in
  let r9 := run hash4 grow_b grow_m 3 3 [[5]; [5]] [0; 1; 0; 1; 0; 1; 1; 0; 0]%nat in
  pcof (fst r5) 0%nat = PInc 0%nat /\ pcof (fst r5) 1%nat = PCas 1%nat 1%nat None
  /\ pcof (fst r6) 1%nat = PUnlock 0%nat false
  /\ snd r9 = [(1%nat, RGet 5 0%nat false); (0%nat, RGet 5 0%nat true)]
  /\ buckets (fst r9) = [None; Some 0%nat; None] /\ size (fst r9) = 1.
Proof. vm_compute. repeat split; reflexivity. Qed.

(** A CAS fails and the retry succeeds (different keys in the same bucket): node 1 is re-chained
    in front of node 0. *)
Example cas_fails_then_retries :
  let r := run hash4 grow_b grow_m 3 3 [[5]; [9]] [0; 1; 0; 1; 0; 1; 1; 1; 1; 0; 0]%nat in
  snd r = [(1%nat, RGet 9 1%nat true); (0%nat, RGet 5 0%nat true)]
  /\ buckets (fst r) = [None; Some 1%nat; None]
  /\ store (fst r) = [mkNode 5 None; mkNode 9 (Some 0%nat)].
Proof. vm_compute. repeat split; reflexivity. Qed.

(* NOT PROVED:
   - "the response with inserted = true is the first to succeed" is only proved in the form
     "at most one response per key has inserted = true, exactly one at quiescence, and it carries
     the published node" ([get_unique_node]); no statement orders the CAS of the inserting thread
     before the other responses (it follows informally from C_r3/C_r4 of [InvC]).
   - Deadlock freedom is only established by the bounded explorations above ([stuck = false] in
     every reachable configuration of the three bounded instances), not in general.
   - [weakFind] is not part of the model (programs consist of [get]s only).
   - The real prime/ceil growth arithmetic is abstracted by the two policy functions; the theorems
     assume only that the policy never returns 0 buckets. *)
