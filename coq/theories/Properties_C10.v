(** C10 -- choice-domain relations are functional on every declared key, contain only derivable
    tuples and are maximal. Only statements; definitions in ContractDefs.v, proofs in
    ContractLemmas.v. The validator [choice_ok] is run by `./check C10` on the final database
    printed by Souffle ([d] holds all relations, [r] is the choice-domain relation, [cs] its
    clauses, [keys] its declared keys as lists of column indices).

    Reading guide: [agree_key k t1 t2] = the tuples are equal in every column of [k];
    [functional_rel keys R] = no two different tuples of [R] agree on a key of [keys];
    [derivable_rel d cs R] = every tuple of [R] is an instance ([fires]) of a clause of [cs]
    evaluated in [d]; [maximal_rel d cs keys R] = every instance absent from [R] agrees on some key
    with a tuple of [R]. The hypotheses are those of [fire_clause_spec] (C01); the driver evaluates
    them on each input ([choice_hyps]). *)
From SV Require Import DatalogDefs DatalogSem DatalogLemmas ContractDefs ContractLemmas.
Require Import Permutation.

Theorem C10_choice_ok_iff : forall d r cs keys res,
  db_nodup d -> clauses_ok cs = true -> forallb clause_det cs = true ->
  choice_ok d r cs keys = Ok res ->
  (res = COk <->
   functional_rel keys (rel_of d r) /\ derivable_rel d cs (rel_of d r) /\ maximal_rel d cs keys (rel_of d r)).
Proof. exact choice_ok_iff. Qed.
Print Assumptions C10_choice_ok_iff.

(** the rejecting verdicts are witnessed *)
Theorem C10_choice_functional_witness : forall d r cs keys t1 t2,
  choice_ok d r cs keys = Ok (CFunctional t1 t2) ->
  In t1 (rel_of d r) /\ In t2 (rel_of d r) /\ t1 <> t2 /\ exists k, In k keys /\ agree_key k t1 t2.
Proof. exact choice_functional_witness. Qed.
Print Assumptions C10_choice_functional_witness.

Theorem C10_choice_underivable_witness : forall d r cs keys t,
  db_nodup d -> clauses_ok cs = true -> forallb clause_det cs = true ->
  choice_ok d r cs keys = Ok (CUnderivable t) ->
  In t (rel_of d r) /\ forall c, In c cs -> ~ fires (holds d) (holds d) c t.
Proof. exact choice_underivable_witness. Qed.
Print Assumptions C10_choice_underivable_witness.

Theorem C10_choice_notmaximal_witness : forall d r cs keys t,
  db_nodup d -> clauses_ok cs = true -> forallb clause_det cs = true ->
  choice_ok d r cs keys = Ok (CNotMaximal t) ->
  (exists c, In c cs /\ fires (holds d) (holds d) c t) /\ ~ In t (rel_of d r) /\
  forall k t', In k keys -> In t' (rel_of d r) -> ~ agree_key k t t'.
Proof. exact choice_notmaximal_witness. Qed.
Print Assumptions C10_choice_notmaximal_witness.

(** the static conditions computed by the driver give the hypotheses above *)
Theorem C10_choice_hyps_spec : forall d cs, choice_hyps d cs = true ->
  db_nodup d /\ clauses_ok cs = true /\ forallb clause_det cs = true.
Proof. exact choice_hyps_spec. Qed.
Print Assumptions C10_choice_hyps_spec.

(** model of the engine (GuardedInsert): candidates inserted one at a time, each unless a present
    tuple agrees with it on some key. For EVERY order of the candidates the result is functional,
    consists of candidates and is maximal with respect to the candidates. Different orders may
    give different results; each is acceptable. *)
Theorem C10_sequential_guarded_insert_functional : forall keys cands cands',
  Permutation cands' cands ->
  let R := insert_all keys [] cands' in
  functional_rel keys R /\ incl R cands /\ maximal_wrt keys cands R.
Proof. exact sequential_guarded_insert_functional. Qed.
Print Assumptions C10_sequential_guarded_insert_functional.
