(** Specification and proofs for the lattice validator of LatticeDefs.v. *)
From SV Require Import DatalogDefs DatalogSem DatalogLemmas ContractDefs ContractLemmas LatticeDefs.
Require Import Permutation.
Local Open Scope Z_scope.

(** * Semilattices: an associative, commutative, idempotent operation *)
Section ACI.
  Context {A : Type} (op : A -> A -> A).
  Definition aci : Prop :=
    (forall a b c, op a (op b c) = op (op a b) c) /\ (forall a b, op a b = op b a) /\ (forall a, op a a = a).
  (** the induced order *)
  Definition le_op (a b : A) : Prop := op a b = b.
  Context (Haci : aci).
  Let assoc := proj1 Haci.
  Let comm := proj1 (proj2 Haci).
  Let idem := proj2 (proj2 Haci).

  Lemma le_op_refl a : le_op a a.
  Proof. apply idem. Qed.
  Lemma le_op_trans a b c : le_op a b -> le_op b c -> le_op a c.
  Proof. unfold le_op. intros H1 H2. rewrite <- H2, assoc, H1. reflexivity. Qed.
  Lemma le_op_antisym a b : le_op a b -> le_op b a -> a = b.
  Proof. unfold le_op. intros H1 H2. rewrite <- H2, comm. exact H1. Qed.
  Lemma le_op_l a b : le_op a (op a b).
  Proof. unfold le_op. now rewrite assoc, idem. Qed.
  Lemma le_op_r a b : le_op b (op a b).
  Proof. unfold le_op. now rewrite (comm a b), assoc, idem. Qed.
  Lemma le_op_lub a b c : le_op a c -> le_op b c -> le_op (op a b) c.
  Proof. unfold le_op. intros H1 H2. now rewrite <- assoc, H2, H1. Qed.

  (** folding the operation over a list gives the least upper bound of the start value and the list *)
  Lemma fold_ub l : forall s, le_op s (fold_left op l s) /\ forall x, In x l -> le_op x (fold_left op l s).
  Proof.
    induction l as [|a l IH]; intro s; simpl.
    - split; [apply le_op_refl|intros x []].
    - destruct (IH (op s a)) as [H1 H2]. split.
      + eapply le_op_trans; [apply le_op_l|exact H1].
      + intros x [<-|Hx]; [|auto]. eapply le_op_trans; [apply le_op_r|exact H1].
  Qed.
  Lemma fold_least l : forall s u, le_op s u -> (forall x, In x l -> le_op x u) -> le_op (fold_left op l s) u.
  Proof.
    induction l as [|a l IH]; intros s u Hs Hl; simpl; [exact Hs|].
    apply IH; [|intros x Hx; apply Hl; simpl; auto]. apply le_op_lub; [exact Hs|apply Hl; simpl; auto].
  Qed.
  (** hence the fold over a non-empty list does not depend on the order of the list *)
  Lemma fold_nonempty_perm x0 xs y0 ys :
    Permutation (x0 :: xs) (y0 :: ys) -> fold_left op xs x0 = fold_left op ys y0.
  Proof.
    intro Hp. apply le_op_antisym; apply fold_least.
    - destruct (fold_ub ys y0) as [H1 H2].
      assert (Hin : In x0 (y0 :: ys)) by (eapply Permutation_in; [exact Hp|simpl; auto]).
      destruct Hin as [<-|Hin]; auto.
    - intros x Hx. destruct (fold_ub ys y0) as [H1 H2].
      assert (Hin : In x (y0 :: ys)) by (eapply Permutation_in; [exact Hp|simpl; auto]).
      destruct Hin as [<-|Hin]; auto.
    - destruct (fold_ub xs x0) as [H1 H2].
      assert (Hin : In y0 (x0 :: xs)) by (eapply Permutation_in; [apply Permutation_sym; exact Hp|simpl; auto]).
      destruct Hin as [<-|Hin]; auto.
    - intros x Hx. destruct (fold_ub xs x0) as [H1 H2].
      assert (Hin : In x (x0 :: xs)) by (eapply Permutation_in; [apply Permutation_sym; exact Hp|simpl; auto]).
      destruct Hin as [<-|Hin]; auto.
  Qed.
  Lemma fold_perm l l' : Permutation l l' -> forall s, fold_left op l s = fold_left op l' s.
  Proof.
    induction 1 as [|x l l' _ IH|x y l|l l' l'' _ IH1 _ IH2]; intro s; simpl; auto.
    - f_equal. now rewrite <- !assoc, (comm y x).
    - now rewrite IH1.
  Qed.

  (** merging batches one after the other, replacing the stored value only when it changes, ends
      in the join of the start value with all the values, whatever the batches and their order *)
  Context (eqb : A -> A -> bool) (eqb_true : forall a b, eqb a b = true -> a = b).
  Lemma merge_batch_eq s batch : merge_batch op eqb s batch = fold_left op batch s.
  Proof. unfold merge_batch. destruct (eqb _ s) eqn:E; [symmetry; now apply eqb_true|reflexivity]. Qed.
  Lemma run_batches_eq batches : forall s, run_batches op eqb s batches = fold_left op (concat batches) s.
  Proof.
    induction batches as [|b bs IH]; intro s; simpl; [reflexivity|].
    unfold run_batches in *. simpl. now rewrite IH, merge_batch_eq, fold_left_app.
  Qed.
  Theorem lub_sequence_step s batches batches' :
    Permutation (concat batches') (concat batches) ->
    run_batches op eqb s batches' = run_batches op eqb s batches /\
    run_batches op eqb s batches = fold_left op (concat batches) s /\
    le_op s (run_batches op eqb s batches) /\
    (forall x, In x (concat batches) -> le_op x (run_batches op eqb s batches)) /\
    (forall u, le_op s u -> (forall x, In x (concat batches) -> le_op x u) -> le_op (run_batches op eqb s batches) u).
  Proof.
    intro Hp. rewrite !run_batches_eq. split; [now apply fold_perm|]. split; [reflexivity|].
    destruct (fold_ub (concat batches) s) as [H1 H2]. split; [exact H1|]. split; [exact H2|].
    intros u. apply fold_least.
  Qed.
End ACI.

(** * The three joins *)
Lemma jop_aci j : aci (jop j).
Proof.
  destruct j; unfold jop, smax, smin, bor; (split; [|split]); intros.
  - apply Z.max_assoc.
  - apply Z.max_comm.
  - apply Z.max_id.
  - apply Z.min_assoc.
  - apply Z.min_comm.
  - apply Z.min_id.
  - apply Z.lor_assoc.
  - apply Z.lor_comm.
  - apply Z.lor_diag.
Qed.

(** * Lattice values *)
Definition le (j : jkind) (a b : value) : Prop := join j a b = Ok b.

Lemma lat_val_some v x : lat_val v = Some x -> v = lat x.
Proof.
  destruct v as [| | |fs|]; try discriminate. destruct fs as [|f [|g fs]]; try discriminate.
  - destruct f; try discriminate. simpl. intro H. inversion H. reflexivity.
  - destruct f; discriminate.
Qed.
Lemma lat_inj x y : lat x = lat y -> x = y.
Proof. intro H. inversion H. reflexivity. Qed.
Lemma join_lat j x y : join j (lat x) (lat y) = Ok (lat (jop j x y)).
Proof. reflexivity. Qed.
Lemma join_ok j a b c : join j a b = Ok c -> exists x y, a = lat x /\ b = lat y /\ c = lat (jop j x y).
Proof.
  unfold join. destruct (lat_val a) as [x|] eqn:Ea; [|discriminate].
  destruct (lat_val b) as [y|] eqn:Eb; [|discriminate]. intro H. inversion H.
  exists x, y. auto using lat_val_some.
Qed.
Lemma le_lat j x y : le j (lat x) (lat y) <-> le_op (jop j) x y.
Proof.
  unfold le, le_op. rewrite join_lat. split; intro H; [inversion H; congruence|now rewrite H].
Qed.
Lemma le_inv j a b : le j a b -> exists x y, a = lat x /\ b = lat y /\ le_op (jop j) x y.
Proof.
  intro H. destruct (join_ok _ _ _ _ H) as (x & y & -> & -> & E). exists x, y.
  split; [reflexivity|]. split; [reflexivity|]. apply lat_inj in E. unfold le_op. congruence.
Qed.

Lemma fold_join_from_ok j vs : forall x w, fold_join_from j (lat x) vs = Ok w ->
  exists xs, vs = map lat xs /\ w = lat (fold_left (jop j) xs x).
Proof.
  induction vs as [|v vs IH]; intros x w H; simpl in H.
  - inversion H. exists []. auto.
  - apply bind_ok in H as (c & Hc & H). destruct (join_ok _ _ _ _ Hc) as (x' & y & E & -> & ->).
    apply lat_inj in E. subst x'. destruct (IH _ _ H) as (xs & -> & ->). exists (y :: xs). auto.
Qed.
Lemma fold_join_ok j v0 vs w : fold_join j v0 vs = Ok w ->
  exists x0 xs, v0 = lat x0 /\ vs = map lat xs /\ w = lat (fold_left (jop j) xs x0).
Proof.
  unfold fold_join. intro H. apply bind_ok in H as (c & Hc & H).
  destruct (join_ok _ _ _ _ Hc) as (x & y & -> & E & ->). apply lat_inj in E. subst y.
  destruct (jop_aci j) as (_ & _ & idem). rewrite idem in H.
  destruct (fold_join_from_ok _ _ _ _ H) as (xs & -> & ->). exists x, xs. auto.
Qed.
Lemma fold_join_lat j x0 xs : fold_join j (lat x0) (map lat xs) = Ok (lat (fold_left (jop j) xs x0)).
Proof.
  unfold fold_join. rewrite join_lat. simpl. destruct (jop_aci j) as (_ & _ & idem). rewrite idem.
  revert x0. induction xs as [|y xs IH]; intro x0; simpl; [reflexivity|]. apply IH.
Qed.

(** [le] is a partial order on lattice values *)
Theorem le_refl j x : le j (lat x) (lat x).
Proof. apply le_lat. apply le_op_refl. apply jop_aci. Qed.
Theorem le_trans j a b c : le j a b -> le j b c -> le j a c.
Proof.
  intros H1 H2. destruct (le_inv _ _ _ H1) as (x & y & -> & -> & L1).
  destruct (le_inv _ _ _ H2) as (y' & z & E & -> & L2). apply lat_inj in E. subst y'.
  apply le_lat. eapply le_op_trans; eauto. apply jop_aci.
Qed.
Theorem le_antisym j a b : le j a b -> le j b a -> a = b.
Proof.
  intros H1 H2. destruct (le_inv _ _ _ H1) as (x & y & -> & -> & L1).
  apply le_lat in H2. f_equal. eapply le_op_antisym; eauto. apply jop_aci.
Qed.

(** the fold of [join] over a non-empty list is the least upper bound of the list ... *)
Theorem fold_join_lub j v0 vs w : fold_join j v0 vs = Ok w ->
  (forall v, In v (v0 :: vs) -> le j v w) /\
  (forall u, (forall v, In v (v0 :: vs) -> le j v u) -> le j w u).
Proof.
  intro H. destruct (fold_join_ok _ _ _ _ H) as (x0 & xs & -> & -> & ->).
  destruct (fold_ub (jop j) (jop_aci j) xs x0) as [U1 U2]. split.
  - intros v [<-|Hv]; [now apply le_lat|]. apply in_map_iff in Hv as (x & <- & Hx). apply le_lat. auto.
  - intros u Hu. destruct (le_inv _ _ _ (Hu _ (or_introl eq_refl))) as (x0' & z & _ & -> & _).
    apply le_lat. apply fold_least; [apply jop_aci| |].
    + apply (le_lat j). apply Hu. simpl; auto.
    + intros x Hx. apply (le_lat j). apply Hu. right. now apply in_map.
Qed.
(** ... and does not depend on the order of the list *)
Theorem fold_join_perm j v0 vs w0 ws a :
  Permutation (v0 :: vs) (w0 :: ws) -> fold_join j v0 vs = Ok a -> fold_join j w0 ws = Ok a.
Proof.
  intros Hp H. destruct (fold_join_ok _ _ _ _ H) as (x0 & xs & -> & -> & ->).
  change (lat x0 :: map lat xs) with (map lat (x0 :: xs)) in Hp.
  apply Permutation_sym, Permutation_map_inv in Hp as (l3 & E & Hp3).
  destruct l3 as [|y0 ys]; [discriminate|]. inversion E; subst.
  rewrite fold_join_lat. do 2 f_equal. symmetry. apply fold_nonempty_perm; [apply jop_aci|exact Hp3].
Qed.

(** * The validator. Declarative statements *)
(** at most one tuple per key *)
Definition functional_keys (R : list tuple) : Prop :=
  forall t1 t2, In t1 R -> In t2 R -> key_of t1 = key_of t2 -> t1 = t2.
(** [v] is a lattice value derivable for key [k] by a rule, from the final database *)
Definition derives (d : db) (cs : list clause) (k : tuple) (v : value) : Prop :=
  exists c t, In c cs /\ fires (holds d) (holds d) c t /\ key_of t = k /\ lat_of t = v.
(** every key with a derivable value has a tuple whose value is an upper bound of all derivable
    values and is the join of finitely many of them (hence the least upper bound) *)
Definition joined (d : db) (cs : list clause) (j : jkind) (R : list tuple) : Prop :=
  forall k, (exists v, derives d cs k v) ->
  exists t, In t R /\ key_of t = k /\
            (forall v, derives d cs k v -> le j v (lat_of t)) /\
            (exists v0 vs, derives d cs k v0 /\ Forall (derives d cs k) vs /\ fold_join j v0 vs = Ok (lat_of t)).
(** every stored key has a derivable value *)
Definition supported (d : db) (cs : list clause) (R : list tuple) : Prop :=
  forall t, In t R -> exists v, derives d cs (key_of t) v.

Lemma same_key_spec a b : same_key a b = true <-> key_of a = key_of b.
Proof. apply tuple_eqb_spec. Qed.
Lemma same_key_refl a : same_key a a = true.
Proof. now apply same_key_spec. Qed.

Lemma find_dupkey_some l a b : find_dupkey l = Some (a, b) ->
  In a l /\ In b l /\ a <> b /\ key_of a = key_of b.
Proof.
  induction l as [|t l IH]; simpl; [discriminate|].
  destruct (find _ l) as [t'|] eqn:F.
  - intro H. inversion H; subst. apply find_some in F as [Hin Hf].
    apply andb_true_iff in Hf as [H1 H2]. apply negb_true_iff, tuple_eqb_false in H1.
    apply same_key_spec in H2. auto.
  - intro H. destruct (IH H) as (A & B & C). auto.
Qed.
Lemma find_dupkey_none l : find_dupkey l = None <-> functional_keys l.
Proof.
  induction l as [|t l IH]; simpl.
  - split; [intros _ t1 t2 []|reflexivity].
  - destruct (find _ l) as [t'|] eqn:F.
    + split; [discriminate|]. intro H. exfalso. apply find_some in F as [Hin Hf].
      apply andb_true_iff in Hf as [H1 H2]. apply negb_true_iff, tuple_eqb_false in H1.
      apply same_key_spec in H2. apply H1. apply H; simpl; auto.
    + assert (Hn : forall x, In x l -> key_of t = key_of x -> t = x).
      { intros x Hx Hk. pose proof (find_none _ _ F x Hx) as Hf. simpl in Hf.
        apply same_key_spec in Hk. rewrite Hk, andb_true_r in Hf.
        apply negb_false_iff in Hf. now apply tuple_eqb_spec. }
      rewrite IH. split.
      * intros H t1 t2 [<-|H1] [<-|H2] Hk; auto. symmetry. auto.
      * intros H t1 t2 H1 H2. apply H; simpl; auto.
Qed.

Lemma group_spec c cands c' : In c' (filter (same_key c) cands) <-> In c' cands /\ key_of c = key_of c'.
Proof. rewrite filter_In, same_key_spec. tauto. Qed.

Definition good (j : jkind) (rel cands : list tuple) (c : tuple) : Prop :=
  exists c0 grp t, filter (same_key c) cands = c0 :: grp /\ find (same_key c) rel = Some t /\
                   fold_join j (lat_of c0) (map lat_of grp) = Ok (lat_of t).

Lemma check_keys_spec j rel cands todo res :
  check_keys j rel cands todo = Ok res -> incl todo cands ->
  (res = LOk <-> forall c, In c todo -> good j rel cands c).
Proof.
  revert res. induction todo as [|c todo IH]; intros res H Hi; simpl in H.
  - inversion H. split; [intros _ c []|reflexivity].
  - assert (Hc : In c cands) by (apply Hi; simpl; auto).
    assert (Hi' : incl todo cands) by (intros x Hx; apply Hi; simpl; auto).
    destruct (filter (same_key c) cands) as [|c0 grp] eqn:Fg.
    { exfalso. assert (In c (filter (same_key c) cands)) by (apply group_spec; auto). rewrite Fg in H0. destruct H0. }
    apply bind_ok in H as (expected & He & H).
    destruct (find (same_key c) rel) as [t|] eqn:Ff.
    + destruct (value_eqb (lat_of t) expected) eqn:Ev.
      * apply value_eqb_spec in Ev. rewrite (IH _ H Hi'). split.
        -- intros Hall c' [<-|Hc']; [|auto]. exists c0, grp, t. rewrite Ev. auto.
        -- intros Hall c' Hc'. apply Hall. simpl; auto.
      * inversion H; subst. split; [discriminate|]. intro Hall. exfalso.
        destruct (Hall c (or_introl eq_refl)) as (c0' & grp' & t' & E1 & E2 & E3).
        rewrite Fg in E1. injection E1 as <- <-. rewrite Ff in E2. injection E2 as <-.
        rewrite He in E3. inversion E3; subst.
        rewrite value_eqb_refl in Ev. discriminate.
    + inversion H; subst. split; [discriminate|]. intro Hall. exfalso.
      destruct (Hall c (or_introl eq_refl)) as (c0' & grp' & t' & _ & E2 & _). rewrite Ff in E2. discriminate.
Qed.

Lemma all_lat (l : list value) : (forall v, In v l -> exists x, v = lat x) -> exists xs, l = map lat xs.
Proof.
  induction l as [|v l IH]; intro H; [exists []; reflexivity|].
  destruct (H v (or_introl eq_refl)) as (x & ->). destruct IH as (xs & ->); [intros; apply H; simpl; auto|].
  exists (x :: xs). reflexivity.
Qed.

Theorem lattice_ok_iff d r cs j res :
  db_nodup d -> clauses_ok cs = true -> forallb clause_det cs = true ->
  lattice_ok d r cs j = Ok res ->
  (res = LOk <->
   functional_keys (rel_of d r) /\ joined d cs j (rel_of d r) /\ supported d cs (rel_of d r)).
Proof.
  intros Hnd Hok Hdet H. unfold lattice_ok in H. apply bind_ok in H as (cands & Hf & H).
  pose proof (fire_all_in d cs cands Hnd Hok Hdet Hf) as Hin.
  assert (Hder : forall k v, derives d cs k v <-> exists c, In c cands /\ key_of c = k /\ lat_of c = v).
  { intros k v. split.
    - intros (c & t & Hc & Hfc & Hk & Hv). exists t. split; [apply Hin; eauto|auto].
    - intros (t & Ht & Hk & Hv). apply Hin in Ht as (c & Hc & Hfc). exists c, t. auto. }
  destruct (find_dupkey (rel_of d r)) as [[a b]|] eqn:F1.
  { inversion H; subst. split; [discriminate|]. intros (P1 & _). apply find_dupkey_none in P1. congruence. }
  apply find_dupkey_none in F1.
  destruct (find _ (rel_of d r)) as [t|] eqn:F2.
  { inversion H; subst. split; [discriminate|]. intros (_ & _ & P3). exfalso.
    apply find_some in F2 as [Ht Hn]. apply negb_true_iff in Hn.
    destruct (P3 t Ht) as (v & Hv). apply Hder in Hv as (c & Hc & Hk & _).
    assert (existsb (same_key t) cands = true); [|congruence].
    apply existsb_exists. exists c. split; [exact Hc|]. now apply same_key_spec. }
  assert (P3 : supported d cs (rel_of d r)).
  { intros t Ht. pose proof (find_none _ _ F2 t Ht) as Hn. simpl in Hn.
    apply negb_false_iff, existsb_exists in Hn as (c & Hc & Hk). apply same_key_spec in Hk.
    exists (lat_of c). apply Hder. exists c. auto. }
  rewrite (check_keys_spec _ _ _ _ _ H (incl_refl _)).
  split.
  - intro Hall. split; [exact F1|]. split; [|exact P3].
    intros k (v & Hv). apply Hder in Hv as (c & Hc & Hk & _).
    destruct (Hall c Hc) as (c0 & grp & t & Eg & Ef & Ej).
    apply find_some in Ef as [Ht Hkt]. apply same_key_spec in Hkt.
    exists t. split; [exact Ht|]. split; [congruence|].
    destruct (fold_join_lub _ _ _ _ Ej) as [Ub _]. split.
    + intros v' Hv'. apply Hder in Hv' as (c' & Hc' & Hk' & <-). apply Ub.
      assert (Hg : In c' (c0 :: grp)) by (rewrite <- Eg; apply group_spec; split; [auto|congruence]).
      destruct Hg as [<-|Hg]; [simpl; auto|]. right. now apply in_map.
    + assert (Hgrp : forall c', In c' (c0 :: grp) -> derives d cs k (lat_of c')).
      { intros c' Hg. rewrite <- Eg in Hg. apply group_spec in Hg as [Hc' Hk']. apply Hder. exists c'.
        split; [exact Hc'|]. split; [congruence|reflexivity]. }
      exists (lat_of c0), (map lat_of grp). split; [apply Hgrp; simpl; auto|]. split; [|exact Ej].
      apply Forall_forall. intros v' Hv'. apply in_map_iff in Hv' as (c' & <- & Hc'). apply Hgrp. simpl; auto.
  - intros (_ & P2 & _) c Hc.
    destruct (P2 (key_of c)) as (t & Ht & Hkt & Ub & v0 & vs & Hv0 & Hvs & Ej).
    { exists (lat_of c). apply Hder. exists c. auto. }
    destruct (filter (same_key c) cands) as [|c0 grp] eqn:Eg.
    { exfalso. assert (In c (filter (same_key c) cands)) by (apply group_spec; auto). rewrite Eg in H0. destruct H0. }
    assert (Hgrp : forall c', In c' (c0 :: grp) -> In c' cands /\ key_of c = key_of c').
    { intros c' Hg. rewrite <- Eg in Hg. now apply group_spec in Hg. }
    assert (Hle : forall c', In c' (c0 :: grp) -> le j (lat_of c') (lat_of t)).
    { intros c' Hg. destruct (Hgrp c' Hg) as [A B]. apply Ub. apply Hder. exists c'. auto. }
    (* the stored tuple is the one found *)
    destruct (find (same_key c) (rel_of d r)) as [t'|] eqn:Ef.
    2:{ exfalso. pose proof (find_none _ _ Ef t Ht) as Hn. simpl in Hn.
        assert (same_key c t = true) by (apply same_key_spec; congruence). congruence. }
    apply find_some in Ef as Ef'. destruct Ef' as [Ht' Hkt']. apply same_key_spec in Hkt'.
    assert (t' = t) by (apply F1; auto; congruence). subst t'.
    exists c0, grp, t. split; [exact Eg|]. split; [exact Ef|].
    (* the group values are well formed, so their join is defined *)
    destruct (le_inv _ _ _ (Hle c0 (or_introl eq_refl))) as (x0 & z & E0 & Ez & _).
    destruct (all_lat (map lat_of grp)) as (xs & Exs).
    { intros v Hv. apply in_map_iff in Hv as (c' & <- & Hc').
      destruct (le_inv _ _ _ (Hle c' (or_intror Hc'))) as (x & _ & E & _). eauto. }
    rewrite E0, Exs, fold_join_lat. f_equal.
    assert (Ee : fold_join j (lat_of c0) (map lat_of grp) = Ok (lat (fold_left (jop j) xs x0)))
      by (rewrite E0, Exs; apply fold_join_lat).
    destruct (fold_join_lub _ _ _ _ Ee) as [Ub1 Least1]. destruct (fold_join_lub _ _ _ _ Ej) as [Ub2 Least2].
    apply (le_antisym j).
    + apply Least1. intros v [<-|Hv]; [apply Hle; simpl; auto|].
      apply in_map_iff in Hv as (c' & <- & Hc'). apply Hle. simpl; auto.
    + apply Least2. intros v Hv.
      assert (Hdv : derives d cs (key_of c) v).
      { destruct Hv as [<-|Hv]; [exact Hv0|]. rewrite Forall_forall in Hvs. auto. }
      apply Hder in Hdv as (c' & Hc' & Hk' & <-). apply Ub1.
      assert (Hg : In c' (c0 :: grp)) by (rewrite <- Eg; apply group_spec; auto).
      destruct Hg as [<-|Hg]; [simpl; auto|]. right. now apply in_map.
Qed.

(** the stored value is the LEAST upper bound of the derivable values *)
Theorem joined_least d cs j k (t : tuple) v0 vs :
  derives d cs k v0 -> Forall (derives d cs k) vs -> fold_join j v0 vs = Ok (lat_of t) ->
  forall u, (forall v, derives d cs k v -> le j v u) -> le j (lat_of t) u.
Proof.
  intros H0 Hs Hj u Hu. destruct (fold_join_lub _ _ _ _ Hj) as [_ Least]. apply Least.
  intros v [<-|Hv]; [auto|]. rewrite Forall_forall in Hs. auto.
Qed.

(** * Witnesses of the rejecting verdicts *)
Lemma check_keys_reject j rel cands todo res : check_keys j rel cands todo = Ok res ->
  match res with
  | LMissingKey k => exists c, In c todo /\ key_of c = k /\ find (same_key c) rel = None
  | LNotJoin k e a => exists c c0 grp t, In c todo /\ key_of c = k /\ filter (same_key c) cands = c0 :: grp /\
                        fold_join j (lat_of c0) (map lat_of grp) = Ok e /\
                        find (same_key c) rel = Some t /\ lat_of t = a /\ a <> e
  | LOk => True
  | _ => False
  end.
Proof.
  revert res. induction todo as [|c todo IH]; intros res H; simpl in H; [inversion H; exact I|].
  assert (Hrec : forall res, check_keys j rel cands todo = Ok res ->
            match res with
            | LMissingKey k => exists c', In c' (c :: todo) /\ key_of c' = k /\ find (same_key c') rel = None
            | LNotJoin k e a => exists c' c0 grp t, In c' (c :: todo) /\ key_of c' = k /\
                  filter (same_key c') cands = c0 :: grp /\ fold_join j (lat_of c0) (map lat_of grp) = Ok e /\
                  find (same_key c') rel = Some t /\ lat_of t = a /\ a <> e
            | LOk => True | _ => False end).
  { intros res' H'. apply IH in H'. destruct res'; auto.
    - destruct H' as (c' & c0 & grp & t & A & B). exists c', c0, grp, t. simpl; auto.
    - destruct H' as (c' & A & B). exists c'. simpl; auto. }
  destruct (filter (same_key c) cands) as [|c0 grp] eqn:Fg; [now apply Hrec|].
  apply bind_ok in H as (e & He & H). destruct (find (same_key c) rel) as [t|] eqn:Ff.
  - destruct (value_eqb (lat_of t) e) eqn:Ev; [now apply Hrec|]. inversion H; subst.
    exists c, c0, grp, t. simpl. repeat split; auto. now apply value_eqb_false.
  - inversion H; subst. exists c. simpl; auto.
Qed.

Theorem lattice_reject_witness d r cs j res :
  db_nodup d -> clauses_ok cs = true -> forallb clause_det cs = true ->
  lattice_ok d r cs j = Ok res ->
  match res with
  | LOk => True
  | LDuplicateKey a b => In a (rel_of d r) /\ In b (rel_of d r) /\ a <> b /\ key_of a = key_of b
  | LUnderivable t => In t (rel_of d r) /\ forall v, ~ derives d cs (key_of t) v
  | LMissingKey k => (exists v, derives d cs k v) /\ forall t, In t (rel_of d r) -> key_of t <> k
  | LNotJoin k e a =>
      (exists t, In t (rel_of d r) /\ key_of t = k /\ lat_of t = a) /\ a <> e /\
      (forall v, derives d cs k v -> le j v e) /\
      (exists v0 vs, derives d cs k v0 /\ Forall (derives d cs k) vs /\ fold_join j v0 vs = Ok e)
  end.
Proof.
  intros Hnd Hok Hdet H. unfold lattice_ok in H. apply bind_ok in H as (cands & Hf & H).
  pose proof (fire_all_in d cs cands Hnd Hok Hdet Hf) as Hin.
  assert (Hder : forall k v, derives d cs k v <-> exists c, In c cands /\ key_of c = k /\ lat_of c = v).
  { intros k v. split.
    - intros (c & t & Hc & Hfc & Hk & Hv). exists t. split; [apply Hin; eauto|auto].
    - intros (t & Ht & Hk & Hv). apply Hin in Ht as (c & Hc & Hfc). exists c, t. auto. }
  destruct (find_dupkey (rel_of d r)) as [[a b]|] eqn:F1.
  { inversion H; subst. now apply find_dupkey_some. }
  destruct (find _ (rel_of d r)) as [t|] eqn:F2.
  { inversion H; subst. apply find_some in F2 as [Ht Hn]. apply negb_true_iff in Hn. split; [exact Ht|].
    intros v Hv. apply Hder in Hv as (c & Hc & Hk & _).
    assert (existsb (same_key t) cands = true); [|congruence].
    apply existsb_exists. exists c. split; [exact Hc|]. now apply same_key_spec. }
  apply check_keys_reject in H. destruct res; try exact I; try contradiction.
  - destruct H as (c & c0 & grp & t & Hc & Hk & Eg & Ej & Ef & Ea & Hne).
    apply find_some in Ef as [Ht Hkt]. apply same_key_spec in Hkt.
    assert (Hgrp : forall c', In c' (c0 :: grp) <-> In c' cands /\ key_of c = key_of c')
      by (intro c'; rewrite <- Eg; apply group_spec).
    destruct (fold_join_lub _ _ _ _ Ej) as [Ub _].
    split; [exists t; split; [exact Ht|]; split; [congruence|exact Ea]|]. split; [exact Hne|]. split.
    + intros v Hv. apply Hder in Hv as (c' & Hc' & Hk' & <-). apply Ub.
      assert (Hg : In c' (c0 :: grp)) by (apply Hgrp; split; [auto|congruence]).
      destruct Hg as [<-|Hg]; [simpl; auto|]. right. now apply in_map.
    + assert (Hd : forall c', In c' (c0 :: grp) -> derives d cs key (lat_of c')).
      { intros c' Hg. apply Hgrp in Hg as [A B]. apply Hder. exists c'. split; [auto|]. split; [congruence|reflexivity]. }
      exists (lat_of c0), (map lat_of grp). split; [apply Hd; simpl; auto|]. split; [|exact Ej].
      apply Forall_forall. intros v Hv. apply in_map_iff in Hv as (c' & <- & Hc'). apply Hd. simpl; auto.
  - destruct H as (c & Hc & Hk & Ef). split.
    + exists (lat_of c). apply Hder. exists c. auto.
    + intros t Ht Hkt. pose proof (find_none _ _ Ef t Ht) as Hn. simpl in Hn.
      assert (same_key c t = true) by (apply same_key_spec; congruence). congruence.
Qed.

(** * Examples.   .decl best(x: number, c: <max lattice>)   (0 = cand, 1 = best)
      best(x, c) :- cand(x, c).        best(x, c) :- best(y, c), link(x, y).   (2 = link) *)
Definition lt2 (x v : Z) : tuple := [VNum x; lat v].
Definition lx_c1 : clause := {| c_rel := 1; c_args := [TVar 0; TVar 1]; c_body := [LS (SPos 0 [TVar 0; TVar 1])] |}.
Definition lx_c2 : clause :=
  {| c_rel := 1; c_args := [TVar 0; TRecord [TVar 3]];
     c_body := [LS (SPos 1 [TVar 2; TRecord [TVar 3]]); LS (SPos 2 [TVar 0; TVar 2])] |}.
Definition lx_db (best : list tuple) : db :=
  [ (0%nat, [lt2 1 5; lt2 1 7; lt2 2 3]); (2%nat, [[VNum 2; VNum 1]]); (1%nat, best) ].
Example lx_accept : lattice_ok (lx_db [lt2 1 7; lt2 2 7]) 1 [lx_c1; lx_c2] JMax = Ok LOk.
Proof. vm_compute. reflexivity. Qed.
Example lx_accept_min : lattice_ok (lx_db [lt2 1 5; lt2 2 3]) 1 [lx_c1; lx_c2] JMin = Ok LOk.
Proof. vm_compute. reflexivity. Qed.
Example lx_accept_bor : lattice_ok (lx_db [lt2 1 7; lt2 2 7]) 1 [lx_c1; lx_c2] JBor = Ok LOk.
Proof. vm_compute. reflexivity. Qed.
Example lx_dupkey :
  lattice_ok (lx_db [lt2 1 7; lt2 1 5; lt2 2 7]) 1 [lx_c1; lx_c2] JMax = Ok (LDuplicateKey (lt2 1 7) (lt2 1 5)).
Proof. vm_compute. reflexivity. Qed.
Example lx_notjoin :
  lattice_ok (lx_db [lt2 1 5; lt2 2 5]) 1 [lx_c1; lx_c2] JMax = Ok (LNotJoin [VNum 1] (lat 7) (lat 5)).
Proof. vm_compute. reflexivity. Qed.
Example lx_missing :
  lattice_ok (lx_db [lt2 1 7]) 1 [lx_c1; lx_c2] JMax = Ok (LMissingKey [VNum 2]).
Proof. vm_compute. reflexivity. Qed.
Example lx_underivable :
  lattice_ok (lx_db [lt2 1 7; lt2 2 7; lt2 9 1]) 1 [lx_c1; lx_c2] JMax = Ok (LUnderivable (lt2 9 1)).
Proof. vm_compute. reflexivity. Qed.
Example lx_malformed : lattice_ok [(0%nat, [[VNum 1; VNum 5]]); (1%nat, [[VNum 1; VNum 5]])] 1 [lx_c1] JMax = Stuck.
Proof. vm_compute. reflexivity. Qed.
Example lx_hyps : choice_hyps (lx_db [lt2 1 7; lt2 2 7]) [lx_c1; lx_c2] = true.
Proof. vm_compute. reflexivity. Qed.
Example lx_meaning :
  let d := lx_db [lt2 1 7; lt2 2 7] in
  functional_keys (rel_of d 1) /\ joined d [lx_c1; lx_c2] JMax (rel_of d 1) /\ supported d [lx_c1; lx_c2] (rel_of d 1).
Proof.
  intro d. destruct (choice_hyps_spec _ _ lx_hyps) as (H1 & H2 & H3).
  apply (lattice_ok_iff d 1 [lx_c1; lx_c2] JMax LOk H1 H2 H3 lx_accept). reflexivity.
Qed.
(** batches in two orders reach the same value, the join of everything *)
Example lx_batches :
  run_batches Z.max Z.eqb 0 [[3; 1]; [7]; [2; 5]] = 7 /\ run_batches Z.max Z.eqb 0 [[5; 7]; [1; 2; 3]] = 7.
Proof. vm_compute. auto. Qed.
Example lx_fold_perm :
  fold_join JBor (lat 1) [lat 4; lat 2] = Ok (lat 7) /\ fold_join JBor (lat 2) [lat 1; lat 4] = Ok (lat 7).
Proof. vm_compute. auto. Qed.
