(** C28 -- The equivalence relation holds exactly the closure of what was inserted.
    "After any history of pair insertions, bulk merges and extend-and-insert operations, including
    concurrent insertions, the structure contains pair (a,b) exactly when a and b are related by
    the reflexive, symmetric and transitive closure of what was inserted. Its size is the sum of
    squared class sizes, and its full, per-element and per-pair iterations and partitions list
    exactly those pairs once each."
    Only statements here; proofs are in EqRelLemmas.v.  The model (EqRelDefs.v) is the sequential
    reading of src/include/souffle/datastructure/EquivalenceRelation.h (insert, insertAll,
    extendAndInsert, contains, size, begin/end, getBoundaries<1>/<2> = anteriorIt/antpostit,
    partition, lower_bound, genAllDisjointSetLists with the statesMapStale flag) on top of
    SparseDisjointSet/DisjointSet of UnionFind.h (findNode with path halving, unionNodes by rank
    with the repaired link updateRoot(x, xrank, y, xrank)).  Concurrent insertions are NOT covered
    here (see the NOT PROVED block of EqRelLemmas.v and Properties_C29.v for the union-find).

    A history ([list op]) acts on two relations A and B; [rel_after h r] is relation r after h,
    [pairs_after h r] the list of pairs h has inserted into it ([spec_pairs]: insert appends the
    pair, r.insertAll(o) appends o's pairs, r.extendAndInsert(o) appends to r the pairs of o whose
    class in o has an element r mentions, and to o all pairs of r).  [closure] is the inductively
    defined reflexive (on mentioned elements), symmetric, transitive closure.  The hypothesis
    [Forall op_in_range h] says inserted elements are 32-bit signed integers. *)
From Coq Require Import List ZArith Bool.
From SV Require Import EqRelDefs EqRelLemmas.
Import ListNotations.

(** The executable closure used in specifications decides the inductive one. *)
Theorem C28_closure_b_spec : forall ps x y, closure_b ps x y = true <-> closure ps x y.
Proof. exact closure_b_spec. Qed.
Print Assumptions C28_closure_b_spec.

(** (a) contains(a, b) is true exactly for the pairs of the closure -- after any history of
    inserts, insertAll, extendAndInsert and queries, on either relation. *)
Theorem C28_contains_iff_closure : forall h r a b,
  Forall op_in_range h ->
  (snd (contains (rel_after h r) a b) = true <-> closure (pairs_after h r) a b).
Proof. exact contains_iff_closure. Qed.
Print Assumptions C28_contains_iff_closure.

Theorem C28_contains_unmentioned : forall h r a b,
  Forall op_in_range h ->
  ~ In a (dom (pairs_after h r)) \/ ~ In b (dom (pairs_after h r)) ->
  snd (contains (rel_after h r) a b) = false.
Proof. exact contains_unmentioned. Qed.
Print Assumptions C28_contains_unmentioned.

(** insert returns true exactly when the pair was not yet in the closure *)
Theorem C28_insert_returns_new : forall h r x y,
  Forall op_in_range h -> in_range x -> in_range y ->
  (snd (insert (rel_after h r) x y) = true <-> ~ closure (pairs_after h r) x y).
Proof. exact insert_returns_new. Qed.
Print Assumptions C28_insert_returns_new.

(** (b) size() = number of pairs produced by begin()..end() = sum of squared class sizes;
    the full iteration lists exactly the pairs of the closure, each once. *)
Theorem C28_size_sum_squares : forall h r,
  Forall op_in_range h ->
  let st := rel_after h r in let ps := pairs_after h r in
  snd (size st) = N.of_nat (length (snd (iter_all st))) /\
  snd (size st) = N.of_nat (sum_squares (snd (classes st))) /\
  NoDup (snd (iter_all st)) /\
  (forall a b, In (a, b) (snd (iter_all st)) <-> closure ps a b).
Proof. exact size_sum_squares. Qed.
Print Assumptions C28_size_sum_squares.

(** size() against the specification alone: the number of pairs of mentioned elements that the
    closure relates *)
Theorem C28_size_counts_closure : forall h r,
  Forall op_in_range h ->
  let st := rel_after h r in let ps := pairs_after h r in
  snd (size st) =
  N.of_nat (length (filter (fun p => closure_b ps (fst p) (snd p))
                           (list_prod (elements ps) (elements ps)))).
Proof. exact size_counts_closure. Qed.
Print Assumptions C28_size_counts_closure.

(** (c) getBoundaries<1>(x): exactly the pairs (x, b) of the closure, each once *)
Theorem C28_iter_anterior_correct : forall h r x,
  Forall op_in_range h ->
  let l := snd (iter_anterior (rel_after h r) x) in
  NoDup l /\ forall a b, In (a, b) l <-> a = x /\ closure (pairs_after h r) x b.
Proof. exact iter_anterior_correct. Qed.
Print Assumptions C28_iter_anterior_correct.

(** getBoundaries<2>(x, y): the pair (x, y), once, iff it is in the closure *)
Theorem C28_iter_antpost_correct : forall h r x y,
  Forall op_in_range h ->
  let l := snd (iter_antpost (rel_after h r) x y) in
  NoDup l /\ forall p, In p l <-> p = (x, y) /\ closure (pairs_after h r) x y.
Proof. exact iter_antpost_correct. Qed.
Print Assumptions C28_iter_antpost_correct.

(** the cached partition (equivalencePartition) is the set of classes of the closure:
    non-empty, pairwise disjoint and duplicate-free lists; two elements share a list iff related *)
Theorem C28_classes_correct : forall h r,
  Forall op_in_range h ->
  let P := snd (classes (rel_after h r)) in
  NoDup (concat P) /\ (forall cl, In cl P -> cl <> []) /\
  (forall a b, closure (pairs_after h r) a b <-> exists cl, In cl P /\ In a cl /\ In b cl).
Proof. exact classes_correct. Qed.
Print Assumptions C28_classes_correct.

(** partition(chunks): the returned ranges together list exactly the pairs of the closure,
    each once, for every requested number of chunks *)
Theorem C28_partition_chunks_correct : forall h r chunks,
  Forall op_in_range h ->
  let l := concat (snd (partition (rel_after h r) chunks)) in
  NoDup l /\ forall a b, In (a, b) l <-> closure (pairs_after h r) a b.
Proof. exact partition_chunks_correct. Qed.
Print Assumptions C28_partition_chunks_correct.

(** (d) insert and insertAll set the stale flag; in every reachable state the flag is set or the
    cache is the partition computed from the forest; and while the flag is set the content of the
    cached field is irrelevant: readers regenerate it. *)
Theorem C28_mutators_set_stale : forall st x y other,
  e_stale (fst (insert st x y)) = true /\ e_stale (fst (insert_all st other)) = true.
Proof. exact mutators_set_stale. Qed.
Print Assumptions C28_mutators_set_stale.

Theorem C28_cache_current_or_stale : forall h r,
  Forall op_in_range h ->
  let st := rel_after h r in
  e_stale st = true \/ e_cache st = cpart (e_sds st).
Proof. exact cache_current_or_stale. Qed.
Print Assumptions C28_cache_current_or_stale.

Theorem C28_cache_regenerated_when_stale : forall st ps junk,
  good st ps ->
  let st' := mkEq (e_sds st) junk true in
  good st' ps /\
  e_cache (gen st') = cpart (e_sds st) /\ e_cache (gen st) = cpart (e_sds st) /\
  snd (size st') = snd (size st) /\ snd (iter_all st') = snd (iter_all st) /\
  snd (classes st') = snd (classes st).
Proof. exact cache_regenerated_when_stale. Qed.
Print Assumptions C28_cache_regenerated_when_stale.

(** [good] holds of every state reached by a history (so the theorem above applies to them) *)
Theorem C28_reachable_good : forall h r,
  Forall op_in_range h -> good (rel_after h r) (pairs_after h r).
Proof. exact after_good. Qed.
Print Assumptions C28_reachable_good.

(** (e) this.extendAndInsert(other), from any two reachable relations: afterwards [this] holds the
    closure of its own pairs together with those classes of [other] that contain an element this
    mentioned, and [other] holds the closure of both. *)
Theorem C28_extend_and_insert_spec : forall h r,
  Forall op_in_range h ->
  let this := rel_after h r in let other := rel_after h (other_id r) in
  let pa := pairs_after h r in let pb := pairs_after h (other_id r) in
  let this' := fst (extend_and_insert this other) in
  let other' := snd (extend_and_insert this other) in
  (forall a b, snd (contains this' a b) = true <->
               closure (pa ++ filter (touches pa pb) pb) a b) /\
  (forall a b, snd (contains other' a b) = true <-> closure (pb ++ pa) a b).
Proof. exact extend_and_insert_spec. Qed.
Print Assumptions C28_extend_and_insert_spec.

(** which is what the comment above extendAndInsert asks for: every tuple of the new [this] is in
    the new [other], and every tuple of the new [other] that the old [other] did not have (the
    "implicitly new tuples") is in the new [this]. *)
Theorem C28_extend_delta_sound : forall pa pb a b,
  closure (pa ++ filter (touches pa pb) pb) a b -> closure (pb ++ pa) a b.
Proof. exact extend_delta_sound. Qed.
Print Assumptions C28_extend_delta_sound.

Theorem C28_extend_delta_complete : forall pa pb a b,
  closure (pb ++ pa) a b -> ~ closure pb a b -> closure (pa ++ filter (touches pa pb) pb) a b.
Proof. exact extend_delta_complete. Qed.
Print Assumptions C28_extend_delta_complete.

(** (f) a concrete history (extreme elements, five classes merged to three, extendAndInsert,
    insertAll) satisfies the hypothesis, and its answers are computed *)
Theorem C28_example_in_range : Forall op_in_range ex_h.
Proof. exact ex_h_in_range. Qed.
Print Assumptions C28_example_in_range.

(** * The code as it is, outside the guarded paths *)
(** antpostit(x, y) called directly on absent elements inserts them without marking the cache
    stale: contains(x,x) becomes true while size() and the iteration still miss (x,x), and
    anteriorIt(x) then fails its lookup (assert in C++). *)
Theorem C28_antpost_unguarded_refuted :
  exists h x y, Forall op_in_range h /\
    let st := rel_after h RA in
    let r := antpost_it st x y in
    snd (contains st x x) = false /\ snd r = Some [] /\
    snd (contains (fst r) x x) = true /\
    snd (size (fst r)) = snd (size st) /\
    ~ In (x, x) (snd (iter_all (fst r))) /\
    snd (anterior_it (fst r) x) = None.
Proof. exact antpost_unguarded_refuted. Qed.
Print Assumptions C28_antpost_unguarded_refuted.

(** lower_bound treats the legal element MIN_RAM_SIGNED as "unbound" (known finding F1). *)
Theorem C28_lower_bound_min_sentinel_refuted :
  exists h, Forall op_in_range h /\
    let st := rel_after h RA in let ps := pairs_after h RA in
    closure ps MIN_RAM_SIGNED 5 /\
    In (7, 8)%Z (snd (lower_bound st MIN_RAM_SIGNED MIN_RAM_SIGNED)) /\
    snd (lower_bound st MIN_RAM_SIGNED 5) = [] /\
    snd (iter_anterior st MIN_RAM_SIGNED) = [(MIN_RAM_SIGNED, 5%Z); (MIN_RAM_SIGNED, MIN_RAM_SIGNED)] /\
    snd (iter_antpost st MIN_RAM_SIGNED 5) = [(MIN_RAM_SIGNED, 5%Z)].
Proof. exact lower_bound_min_sentinel_refuted. Qed.
Print Assumptions C28_lower_bound_min_sentinel_refuted.
