(** C19 -- provenance: every explanation is a proof tree whose nodes instantiate the cited rule,
    with positive body atoms proven by child subtrees, negated atoms absent from the result and
    constraints true, ending in facts; a tuple that is not in the result is reported not found.
    Only statements; definitions in ProofTreeDefs.v, proofs in ProofTreeLemmas.v. The validator
    [check_tree] is run by `./check C19` on the JSON trees printed by `souffle -t explain`.

    Reading guide: [d] = the final database (inputs and computed relations); [cs] = all clauses in
    source order; [PNode r tup k children] cites the k-th (0-based) clause with head [r];
    [valid d cs t] = every node of [t] is an instance ([fires]) of the clause it cites, where
    positive body atoms are read in the conclusions of the node's children ([children_interp])
    and negated atoms, constraints, aggregates in [d], and every fact leaf is in [d];
    [concl t] = the atom at the root. *)
From SV Require Import DatalogDefs DatalogSem DatalogLemmas StratLemmas ProofTreeDefs ProofTreeLemmas.

(** (a) an accepted tree is a valid proof tree *)
Theorem C19_check_tree_valid : forall d cs t,
  db_nodup d -> clauses_ok cs = true -> check_tree d cs t = Ok TOk -> valid d cs t.
Proof. exact check_tree_valid. Qed.
Print Assumptions C19_check_tree_valid.

(** what [valid] says at a node *)
Theorem C19_valid_node : forall d cs r tup k chs,
  valid d cs (PNode r tup k chs) <->
  (exists c, nth_error (clauses_for cs r) k = Some c /\ fires (children_interp chs) (holds d) c tup) /\
  Forall (valid d cs) chs.
Proof. exact valid_node. Qed.
Print Assumptions C19_valid_node.

(** (b) if [d] is the stratified model (as C01 proves of the oracle's output and the differential
    establishes for Souffle's), the root of an accepted tree is in the model *)
Theorem C19_check_tree_sound : forall edb ss d t,
  strata_ok [] ss = true -> program_ok ss = true -> db_nodup d ->
  (forall r tup, In tup (rel_of d r) <-> strat_model (holds edb) ss r tup) ->
  check_tree d (concat ss) t = Ok TOk ->
  valid d (concat ss) t /\
  forall r tup, concl t = Some (r, tup) -> strat_model (holds edb) ss r tup.
Proof. exact check_tree_sound. Qed.
Print Assumptions C19_check_tree_sound.

(** used for (b), and of independent interest: the stratified model is closed under every clause
    of the program with everything (also negation and aggregation) read in the model itself *)
Theorem C19_strat_model_closed : forall ss L,
  strata_ok [] ss = true ->
  forall c t, In c (concat ss) -> fires (strat_model L ss) (strat_model L ss) c t -> strat_model L ss (c_rel c) t.
Proof. intros ss L H. apply (strat_model_closed ss [] L). now apply strata_ok_SOK. Qed.
Print Assumptions C19_strat_model_closed.

(** rejections that name a defect of the tree are witnessed *)
Theorem C19_check_tree_reject_witness : forall d cs t res,
  check_tree d cs t = Ok res ->
  match res with
  | TFactAbsent r t => ~ In t (rel_of d r)
  | TBadRule r t k => nth_error (clauses_for cs r) k = None
  | THeadMismatch r t k =>
      exists c, nth_error (clauses_for cs r) k = Some c /\ forall s, ~ Forall2 (den s) (c_args c) t
  | _ => True
  end.
Proof. exact check_tree_reject_witness. Qed.
Print Assumptions C19_check_tree_reject_witness.

(** "Tuple not found" is the right answer exactly for absent tuples *)
Theorem C19_not_found_correct : forall d r t, absent d r t = true <-> ~ In t (rel_of d r).
Proof. exact not_found_correct. Qed.
Print Assumptions C19_not_found_correct.

Theorem C19_not_found_model : forall edb ss d r t,
  (forall r tup, In tup (rel_of d r) <-> strat_model (holds edb) ss r tup) ->
  (absent d r t = true <-> ~ strat_model (holds edb) ss r t).
Proof. exact not_found_model. Qed.
Print Assumptions C19_not_found_model.

Theorem C19_tree_hyps_spec : forall d cs, tree_hyps d cs = true -> db_nodup d /\ clauses_ok cs = true.
Proof. exact tree_hyps_spec. Qed.
Print Assumptions C19_tree_hyps_spec.
