#!/bin/sh
# MANIFEST.setup_cmd: build the framework offline from files on disk only.
#  1. Coq development (full .vo build, every file under shell timeout)
#  2. extracted models + OCaml drivers
#  3. hooked build tree of /repo's working tree (-DSOUFFLE_VERIF, -O1 -g0) in _work/build
#  4. C++ harnesses against /repo/src/include
set -e
cd "$(dirname "$0")"
mkdir -p _work/bin _work/tmp evidence replays
( cd coq && coq_makefile -f _CoqProject -o Makefile >/dev/null && timeout 7200 make -k -j16 ) || echo "setup: coq build reported errors (checks will report them)"
( timeout 3600 make -s -C ocaml all ) || echo "setup: ocaml drivers reported errors"
python3 - <<'PY'
import sys, os
sys.path.insert(0, os.path.join(os.getcwd(), "harness"))
import common as C
C.build_souffle()
for src in sorted(os.listdir(C.CPP)):
    if src.endswith("_harness.cpp"):
        try:
            C.compile_cpp(os.path.join(C.CPP, src), os.path.join(C.WORK, "bin", src[:-4]))
        except C.BuildError as e:
            print("setup: harness", src, "failed:", str(e)[:500])
PY
echo "setup done"
