"""C04 -- Optional AST optimisations and inlining preserve results.
tie: every switchable AST transformer disabled singly (-z), random subsets, random inline marks; all equal the oracle."""
import pipeline as P

LEVEL = "translation_validation"
PASSES = ["MinimiseProgramTransformer", "RemoveRelationCopiesTransformer", "RemoveEmptyRelationsTransformer",
          "RemoveRedundantRelationsTransformer", "ReduceExistentialsTransformer", "ReplaceSingletonVariablesTransformer",
          "PartitionBodyLiteralsTransformer", "SimplifyConstantBinaryConstraintsTransformer", "RemoveBooleanConstraintsTransformer",
          "RemoveRedundantSumsTransformer", "InlineRelationsTransformer", "ResolveAliasesTransformer",
          "MaterializeAggregationQueriesTransformer", "MaterializeSingletonAggregationTransformer", "FoldAnonymousRecords"]


def features(r):
    return P.random_features(r, always=["hidden"])


def inline_variant(marks):
    def t(p):
        import copy
        q = copy.deepcopy(p)
        for r in q.rels:
            if r.name in marks:
                r.quals = [marks[r.name]]
        return q.render_dl()
    return t


def make_configs(rng):
    def configs(p):
        r = rng.fork(P.prog_hash(p))
        cs = [P.Config("default")]
        cs += [P.Config("-z " + t, args=["--disable-transformers=" + t]) for t in PASSES]
        for k in range(3):
            sub = [t for t in PASSES if r.chance(1, 3)]
            if sub:
                cs.append(P.Config("-z " + ",".join(sub), args=["--disable-transformers=" + ",".join(sub)]))
        cand = [x for x in p.rels if x.kind == "idb" and not x.output]
        for k in range(3):
            marks = {x.name: r.choice(["inline", "no_inline"]) for x in cand if r.chance(1, 2)}
            if marks:
                cs.append(P.Config("inline marks " + ",".join("%s=%s" % kv for kv in sorted(marks.items())), transform=inline_variant(marks)))
        return cs
    return configs


def main(pid, tier, seed, replay):
    import common as C
    return P.standard_check(pid, LEVEL, tier, seed, make_configs(C.SplitMix64(seed)), 12, 200, features, proof_pid="C04+C04b", rule=
        "generated programs with non-output intermediate relations x {each switchable AST pass disabled, 3 random subsets, 3 random inline/no_inline markings "
        "(markings the semantic checker rejects are skipped)}; non-trivial = distinct program with non-empty output")
