"""C29 -- Lock-free union-find is linearizable.

proof:  Properties_C29.v (UnionFindDefs/UnionFindLemmas), model at the granularity of single atomic loads / CASes of
        findNode, updateRoot, sameSet, unionNodes. For the code as it is now (fx = true, after fix b94659be9): for any
        number of threads, operations and steps -- parent links respect the (rank, index) order (no cycle but root
        self-loops), ranks of non-roots are frozen, same-root implies related by the invoked unions, a returning union's
        arguments share a root, classes never split, at quiescence partition = closure of the requested unions;
        sameSet=true answers are correct; bounded exhaustive linearizability monitor (3 threads x 2 ops / 2 x 3, 3-4
        nodes, all schedules). For the code before the fix (fx = false) the same statements are REFUTED by a concrete
        3-node schedule (kept as corpus case, replayed on the real code on every run).
tie:    step-level: the real DisjointSet (hook H3) runs scripts under cpp/vsched.h; the executed schedule is replayed in the
        extracted model; every response and the final (parent, rank) array must agree, and the model monitor must accept.
search: python statement of the property on the implementation's own results (closure at quiescence, sameSet answers
        bracketed by the unions completed before / invoked before the answer, parent array acyclic).
"""
import os

import common as C

LEVEL = "proof"


def gen_case(rng):
    n = rng.range(2, 5)
    k = rng.range(2, 4)
    scripts = []
    for _ in range(k):
        ops = []
        for _ in range(rng.range(1, 4)):
            c = rng.below(10)
            x, y = rng.below(n), rng.below(n)
            ops.append("u:%d:%d" % (x, y) if c < 6 else ("s:%d:%d" % (x, y) if c < 9 else "f:%d" % x))
        scripts.append(ops)
    return n, scripts


def line_for(n, scripts, sched):
    return "%d | %s | %s" % (n, " | ".join(" ".join(s) for s in scripts), sched)


def fields(line):
    out = {}
    for part in line.split(";"):
        toks = part.split()
        if toks:
            out[toks[0]] = toks[1:]
    return out


def closure_classes(n, unions):
    par = list(range(n))

    def find(x):
        while par[x] != x:
            x = par[x]
        return x
    for a, b in unions:
        ra, rb = find(a), find(b)
        if ra != rb:
            par[ra] = rb
    return [find(i) for i in range(n)]


def impl_predicate(n, scripts, f):
    """property on the implementation's observations only"""
    mem = [tuple(int(v) for v in x.split(":")) for x in f.get("mem", [])]
    # acyclic: following parents reaches a self-loop within n steps
    for i in range(n):
        x = i
        for _ in range(n + 1):
            if mem[x][0] == x:
                break
            x = mem[x][0]
        else:
            return "parent links form a cycle through node %d: %s" % (i, mem)
        if mem[x][0] != x:
            return "parent links form a cycle through node %d: %s" % (i, mem)

    def root(i):
        while mem[i][0] != i:
            i = mem[i][0]
        return i
    unions = [(int(o.split(":")[1]), int(o.split(":")[2])) for s in scripts for o in s if o.startswith("u:")]
    if "STUCK" in f:
        return None
    cls = closure_classes(n, unions)
    for a in range(n):
        for b in range(n):
            if (cls[a] == cls[b]) != (root(a) == root(b)):
                return "at quiescence nodes %d and %d: closure says %s, structure says %s (mem %s)" % (a, b, cls[a] == cls[b], root(a) == root(b), mem)
    # sameSet = true must be justified by ALL requested unions (classes only merge, so true is sound iff in the final closure)
    ptr = [0] * len(scripts)
    done_unions = []                 # unions whose response precedes, in the global response order
    started_after = [0] * len(scripts)   # per thread: number of unions completed before its current operation started
    for r in f.get("resp", []):
        t, kind, val = r.split(":")
        t = int(t)
        op = scripts[t][ptr[t]]
        ptr[t] += 1
        if kind == "s":
            a, b = int(op.split(":")[1]), int(op.split(":")[2])
            if val == "t" and cls[a] != cls[b]:
                return "sameSet(%d,%d) answered true although no requested union connects them" % (a, b)
            if val == "f":
                # false is wrong at every instant of the call if the unions that had RETURNED before the call was even
                # invoked (= before this thread's previous response) already connect the two nodes
                before = closure_classes(n, done_unions[: started_after[t]])
                if before[a] == before[b]:
                    return "sameSet(%d,%d) answered false although unions completed before the call already joined them" % (a, b)
        if kind == "u":
            done_unions.append((int(op.split(":")[1]), int(op.split(":")[2])))
        started_after[t] = len(done_unions)
    return None


def search_failing_schedule(harness, n, scripts, rng, tries):
    """correspondence broke on (n, scripts): look for a schedule of the same scripts on which the REAL structure violates
    the property predicate"""
    cases = [(n, scripts, "random %d %d" % (rng.next() % (1 << 31), rng.choice([15, 40, 70]))) for _ in range(tries)]
    answers, _ = C.run_resumable(harness, [line_for(*c) for c in cases], timeout=600)
    for c, a in zip(cases, answers):
        if a is None:
            continue
        if a.startswith("STUCK-EXIT"):
            return c, {"sched": a.split("sched", 1)[1].split()}, "an operation did not finish within the step budget (livelock)"
        f = fields(a)
        bad = impl_predicate(n, scripts, f)
        if bad:
            return c, f, bad
    return None


def main(pid, tier, seed, replay):
    chk = C.Check(pid, LEVEL, tier, seed)
    rng = chk.rng
    harness = C.compile_cpp(os.path.join(C.CPP, "uf_harness.cpp"), os.path.join(C.WORK, "bin", "uf_harness"))
    chk.proof_stage()
    model = C.ocaml_driver("unionfind")
    cases = []
    cdir = os.path.join(C.VERIF, "corpus", pid)
    for fn in sorted(os.listdir(cdir)) if os.path.isdir(cdir) else []:
        for l in open(os.path.join(cdir, fn)):
            if l.strip():
                parts = [x.strip() for x in l.strip().split("|")]
                cases.append((int(parts[0]), [p.split() for p in parts[1:-1]], parts[-1]))
    ncorpus = len(cases)
    n_cases = 4000 if tier == "quick" else 80000
    for i in range(n_cases):
        r = rng.fork("case%d" % i)
        n, scripts = gen_case(r)
        cases.append((n, scripts, "random %d %d" % (r.next() % (1 << 31), r.choice([15, 40, 70]))))
    answers, crashed = C.run_resumable(harness, [line_for(*c) for c in cases], timeout=3000)
    if crashed is not None:
        chk.violation("union-find harness died on case %d of %d" % (crashed, len(cases)), {"case": line_for(*cases[crashed])})
    kept, ilines, nstuck = [], [], 0
    for c, a in zip(cases, answers):
        if a is None:
            continue
        if a.startswith("STUCK-EXIT"):
            nstuck += 1
            if nstuck <= 4:
                chk.finding(None, "C29 fails on the real DisjointSet: an operation never completed under the schedule (%s)" % " ".join(a.split()[1:3]),
                            {"case": line_for(c[0], c[1], " ".join(a.split("sched", 1)[1].split())), "harness_answer": a[:600]})
            continue
        kept.append(c)
        ilines.append(a)
    cases = kept
    imp = [fields(l) for l in ilines]
    searched = 0
    minput = "".join("fixed " + line_for(c[0], c[1], " ".join(f.get("sched", []))) + "\n" for c, f in zip(cases, imp))
    rc, mout, err = C.sh([model], input=minput.encode(), timeout=3000)
    mlines = mout.splitlines()
    distinct, steps, casfail = set(), 0, 0
    for idx, (c, f, ml) in enumerate(zip(cases, imp, mlines)):
        m = fields(ml)
        sched = f.get("sched", [])
        steps += len(sched)
        rep = {"case": line_for(c[0], c[1], " ".join(sched)), "impl": {k: " ".join(v) for k, v in f.items() if k != "sched"},
               "model": {k: " ".join(v) for k, v in m.items() if k != "steps"}, "from_corpus": idx < ncorpus}
        bad = impl_predicate(c[0], c[1], f)
        if "STUCK" in f:
            bad = bad or "an operation did not finish within the step budget (livelock?)"
        if bad:
            chk.finding(None, "C29 fails on the real DisjointSet: " + bad, rep)
        elif ml.startswith("err") or f.get("resp") != m.get("resp") or f.get("mem") != m.get("mem") or m.get("mon") != ["ok"]:
            found = None
            if searched < 6:
                searched += 1
                found = search_failing_schedule(harness, c[0], c[1], rng.fork("search%d" % idx), 1500 if tier == "quick" else 20000)
            if found:
                fc, ff, fbad = found
                chk.finding(None, "C29 fails on the real DisjointSet (schedule found after the model and the code disagreed on these scripts): " + fbad,
                            {"case": line_for(fc[0], fc[1], " ".join(ff.get("sched", []))), "impl": {k: " ".join(v) for k, v in ff.items() if k != "sched"}, "disagreement_that_triggered_the_search": rep})
            else:
                chk.violation("real DisjointSet and model disagree under the same schedule (property predicate holds on the real results; no failing schedule found for these scripts)",
                              dict(rep, correspondence="UnionFindDefs.run_fixed vs DisjointSet under cpp/vsched.h"), no_input=True)
        if len(set(sched)) > 1 and sum(1 for s in c[1] for o in s if o.startswith("u:")) >= 2:
            distinct.add((c[0], tuple(map(tuple, c[1])), tuple(sched)))
        if len(chk.samples) < 3 and len(set(sched)) > 2:
            chk.sample(rep)
    chk.cov.update({"evaluations": len(cases), "distinct_nontrivial": len(distinct),
                    "rule": "2-5 nodes, 2-4 threads x 1-4 operations (60% union, 30% sameSet, 10% find), seeded random schedules (switch probability 15/40/70%) + corpus of past failures; "
                            "non-trivial = distinct (scripts, executed schedule) with at least two unions and at least two threads interleaved",
                    "traces_validated_against_impl": len(mlines), "atomic_steps": steps, "corpus_cases": ncorpus})
    chk.assumptions = ["sequentially consistent interleaving of the atomic operations", "nodes are created before the concurrent phase (concurrent makeNode is C28's PiggyList)", "fewer than 255 nodes (rank is 8 bits)"]
    return chk.finish(["Coq 8.16.1 kernel; Properties_C29.v closed under the global context (vm_compute in the bounded theorems)",
                       "extraction ExtrOcamlBasic; ocaml/unionfind_driver.ml", "cpp/vsched.h + cpp/uf_harness.cpp; hook H3 in UnionFind.h",
                       "modelled: DisjointSet findNode/updateRoot/sameSet/unionNodes; memory orders not modelled"])
