HOOK_COMMITS = []

chk("C18", "proof",
    "Theorems (Coq, closed under the global context): a signed/unsigned fact field is accepted iff it is a complete literal of the column type whose value is representable, and the stored value is the denoted one; accepted program-text constants are in range. The model follows StringUtil.h / ReadStreamCSV.h line by line and is tied on every run by running the extracted model and the real ReadFileCSV on the same generated fields (boundaries of 2^31, 2^32, 2^63, 2^64, signs, prefixes, whitespace, garbage), plus whole fact files and constants through the rebuilt souffle binary.",
    "Trusted: Coq kernel; extraction (ExtrOcamlBasic) and OCaml glue; glibc strtol/strtoul modelled by their specification; strtof not modelled (float fields are judged by an exact nearest-value predicate, exploration only); field splitting belongs to C17.",
    "Coq proof of accept<->literal-in-range + differential correspondence (extracted model vs real loader)", "DESIGN.md §6 C18")

HOOK_COMMITS += ["73df3ec6f", "62c4bd982"]

chk("C30", "proof",
    "Theorems (Coq, closed): for any number of clients and any interleaving of the lock's atomic operations -- version odd iff exactly one client is in a write phase; a successful validation/upgrade was not overlapped by a completed write (with the necessary hypothesis of < 2^31 completed writes; the unbounded statement is proved false by wrap-around); abort_write restores the version outstanding leases hold; a step that does not complete its operation only happens under a concurrent writer; exhaustive exploration of 3 clients x 1 block (3 initial versions) and 2 clients x 2 blocks. Tied at step level: the real lock runs under a deterministic scheduler with a scheduling point before every atomic operation and the executed schedule is replayed in the extracted model (all results, leases, final version compared).",
    "Trusted: Coq kernel (vm_compute in the bounded theorems); extraction + OCaml driver; cpp/vsched.h scheduler and hook H1; sequential consistency (memory orders and the acquire fence are not modelled); Waiter back-off not modelled.",
    "Coq invariant proofs over an atomic-step state machine + step-level replay correspondence against the instrumented real lock", "DESIGN.md §6 C30")

HOOK_COMMITS += ["879cae19f", "1b6159d3d"]

chk("C01", "proof",
    "Theorems (Coq, closed, 14 obligations): the reference evaluator run_program computes exactly the declaratively defined stratified least model (sound, complete, duplicate free; least model characterised both inductively and as the intersection of all closed interpretations; uniqueness of the stratified model), with aggregate edge cases (count/sum of an empty group fire with 0, min/max do not fire). The static hypotheses of the theorem (program_ok, program_det) are evaluated by extracted code on every generated case. Tied by running the extracted evaluator and the rebuilt souffle interpreter on generated programs + facts and comparing every output relation as a set, duplicates included.",
    "Trusted: Coq kernel; extraction + S-expression reader; the generator's double rendering; fragment: no mean aggregate, no float functors, no '_' in aggregate-body atoms, unsigned min/max aggregates outside the completeness theorem. The translation ast->ram->interpreter is not modelled: correspondence only.",
    "Coq proof that the reference evaluator equals the stratified least model + differential correspondence with the interpreter", "DESIGN.md §6 C01")

chk("C29", "proof",
    "Theorems (Coq, closed, 15 obligations) over a model whose steps are the single atomic loads / CASes of DisjointSet: for any number of threads / operations / steps of the current code -- (rank,index)-ordered parent links (no cycle except root self-loops), frozen non-root ranks, same-root => related by invoked unions, returning union => same root, classes never split, quiescent partition = closure; sameSet=true correct; exhaustive linearizability monitor for 3x2 and 2x3 operations over 3-4 nodes (all schedules). The code before fix b94659be9 is proved to violate these (concrete 3-node schedule), which was reproduced on the real header and repaired. Tied at step level: real DisjointSet under the deterministic scheduler (hook H3), same schedule replayed in the extracted model, all responses and the final parent/rank array compared.",
    "Trusted: Coq kernel (vm_compute in bounded theorems); extraction + driver; cpp/vsched.h and hook H3; sequential consistency; sameSet=false answers only covered by the bounded theorems; < 255 nodes.",
    "Coq invariant proofs over an atomic-step model + step-level replay correspondence against the instrumented real union-find", "DESIGN.md §6 C29")

chk("C03", "proof",
    "Theorems (Coq, closed): every interleaving of the workers' inserts of any chunking of a parallel scan yields the sequential result as a set, provided the scan body reads only relations it does not write (par_insert_confluent, interleavings enumerated soundly and completely). Tied by (a) validating on the emitted transformed RAM of every generated program that each PARALLEL mark sits on a query whose read and write relations are disjoint and that carries no guarded insert/erase, (b) outputs at -j1,2,3,4,8,16 and under perturbed schedules (hook H6) all equal to the proved oracle.",
    "Trusted: Coq kernel; par_marks_ok reader of --show=transformed-ram (python, not proved); OpenMP scheduling is perturbed, not enumerated; races inside the B-tree/brie inserts belong to C25/C27; compiled float sum order (finding F5) is outside the theorem.",
    "Coq confluence theorem for parallel set inserts + RAM-artefact validation + differential runs over thread counts and perturbed schedules", "DESIGN.md §6 C03")
