HOOK_COMMITS = []

chk("C18", "proof",
    "Theorems (Coq, closed under the global context): a signed/unsigned fact field is accepted iff it is a complete literal of the column type whose value is representable, and the stored value is the denoted one; accepted program-text constants are in range. The model follows StringUtil.h / ReadStreamCSV.h line by line and is tied on every run by running the extracted model and the real ReadFileCSV on the same generated fields (boundaries of 2^31, 2^32, 2^63, 2^64, signs, prefixes, whitespace, garbage), plus whole fact files and constants through the rebuilt souffle binary.",
    "Trusted: Coq kernel; extraction (ExtrOcamlBasic) and OCaml glue; glibc strtol/strtoul modelled by their specification; strtof not modelled (float fields are judged by an exact nearest-value predicate, exploration only); field splitting belongs to C17.",
    "Coq proof of accept<->literal-in-range + differential correspondence (extracted model vs real loader)", "DESIGN.md §6 C18")

HOOK_COMMITS += ["73df3ec6f", "62c4bd982"]

chk("C30", "proof",
    "Theorems (Coq, closed): for any number of clients and any interleaving of the lock's atomic operations -- version odd iff exactly one client is in a write phase; a successful validation/upgrade was not overlapped by a completed write (with the necessary hypothesis of < 2^31 completed writes; the unbounded statement is proved false by wrap-around); abort_write restores the version outstanding leases hold; a step that does not complete its operation only happens under a concurrent writer; exhaustive exploration of 3 clients x 1 block (3 initial versions) and 2 clients x 2 blocks. Tied at step level: the real lock runs under a deterministic scheduler with a scheduling point before every atomic operation and the executed schedule is replayed in the extracted model (all results, leases, final version compared).",
    "Trusted: Coq kernel (vm_compute in the bounded theorems); extraction + OCaml driver; cpp/vsched.h scheduler and hook H1; sequential consistency (memory orders and the acquire fence are not modelled); Waiter back-off not modelled.",
    "Coq invariant proofs over an atomic-step state machine + step-level replay correspondence against the instrumented real lock", "DESIGN.md §6 C30")
