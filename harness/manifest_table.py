HOOK_COMMITS = []

chk("C18", "proof",
    "Theorems (Coq, closed under the global context): a signed/unsigned fact field is accepted iff it is a complete literal of the column type whose value is representable, and the stored value is the denoted one; accepted program-text constants are in range. The model follows StringUtil.h / ReadStreamCSV.h line by line and is tied on every run by running the extracted model and the real ReadFileCSV on the same generated fields (boundaries of 2^31, 2^32, 2^63, 2^64, signs, prefixes, whitespace, garbage), plus whole fact files and constants through the rebuilt souffle binary.",
    "Trusted: Coq kernel; extraction (ExtrOcamlBasic) and OCaml glue; glibc strtol/strtoul modelled by their specification; strtof not modelled (float fields are judged by an exact nearest-value predicate, exploration only); field splitting belongs to C17.",
    "Coq proof of accept<->literal-in-range + differential correspondence (extracted model vs real loader)", "DESIGN.md §6 C18")
