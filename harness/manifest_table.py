HOOK_COMMITS = []

chk("C18", "proof",
    "Theorems (Coq, closed under the global context): a signed/unsigned fact field is accepted iff it is a complete literal of the column type whose value is representable, and the stored value is the denoted one; accepted program-text constants are in range. The model follows StringUtil.h / ReadStreamCSV.h line by line and is tied on every run by running the extracted model and the real ReadFileCSV on the same generated fields (boundaries of 2^31, 2^32, 2^63, 2^64, signs, prefixes, whitespace, garbage), plus whole fact files and constants through the rebuilt souffle binary.",
    "Trusted: Coq kernel; extraction (ExtrOcamlBasic) and OCaml glue; glibc strtol/strtoul modelled by their specification; strtof not modelled (float fields are judged by an exact nearest-value predicate, exploration only); field splitting belongs to C17.",
    "Coq proof of accept<->literal-in-range + differential correspondence (extracted model vs real loader)", "DESIGN.md §6 C18")

HOOK_COMMITS += ["73df3ec6f", "62c4bd982"]

chk("C30", "proof",
    "Theorems (Coq, closed): for any number of clients and any interleaving of the lock's atomic operations -- version odd iff exactly one client is in a write phase; a successful validation/upgrade was not overlapped by a completed write (with the necessary hypothesis of < 2^31 completed writes; the unbounded statement is proved false by wrap-around); abort_write restores the version outstanding leases hold; a step that does not complete its operation only happens under a concurrent writer; exhaustive exploration of 3 clients x 1 block (3 initial versions) and 2 clients x 2 blocks. Tied at step level: the real lock runs under a deterministic scheduler with a scheduling point before every atomic operation and the executed schedule is replayed in the extracted model (all results, leases, final version compared).",
    "Trusted: Coq kernel (vm_compute in the bounded theorems); extraction + OCaml driver; cpp/vsched.h scheduler and hook H1; sequential consistency (memory orders and the acquire fence are not modelled); Waiter back-off not modelled.",
    "Coq invariant proofs over an atomic-step state machine + step-level replay correspondence against the instrumented real lock", "DESIGN.md §6 C30")

HOOK_COMMITS += ["879cae19f", "1b6159d3d"]

chk("C01", "proof",
    "Theorems (Coq, closed, 14 obligations): the reference evaluator run_program computes exactly the declaratively defined stratified least model (sound, complete, duplicate free; least model characterised both inductively and as the intersection of all closed interpretations; uniqueness of the stratified model), with aggregate edge cases (count/sum of an empty group fire with 0, min/max do not fire). The static hypotheses of the theorem (program_ok, program_det) are evaluated by extracted code on every generated case. Tied by running the extracted evaluator and the rebuilt souffle interpreter on generated programs + facts and comparing every output relation as a set, duplicates included.",
    "Trusted: Coq kernel; extraction + S-expression reader; the generator's double rendering; fragment: no mean aggregate, no float functors, no '_' in aggregate-body atoms, unsigned min/max aggregates outside the completeness theorem. The translation ast->ram->interpreter is not modelled: correspondence only.",
    "Coq proof that the reference evaluator equals the stratified least model + differential correspondence with the interpreter", "DESIGN.md §6 C01")

chk("C29", "proof",
    "Theorems (Coq, closed, 15 obligations) over a model whose steps are the single atomic loads / CASes of DisjointSet: for any number of threads / operations / steps of the current code -- (rank,index)-ordered parent links (no cycle except root self-loops), frozen non-root ranks, same-root => related by invoked unions, returning union => same root, classes never split, quiescent partition = closure; sameSet=true correct; exhaustive linearizability monitor for 3x2 and 2x3 operations over 3-4 nodes (all schedules). The code before fix b94659be9 is proved to violate these (concrete 3-node schedule), which was reproduced on the real header and repaired. Tied at step level: real DisjointSet under the deterministic scheduler (hook H3), same schedule replayed in the extracted model, all responses and the final parent/rank array compared.",
    "Trusted: Coq kernel (vm_compute in bounded theorems); extraction + driver; cpp/vsched.h and hook H3; sequential consistency; sameSet=false answers only covered by the bounded theorems; < 255 nodes.",
    "Coq invariant proofs over an atomic-step model + step-level replay correspondence against the instrumented real union-find", "DESIGN.md §6 C29")

chk("C03", "proof",
    "Theorems (Coq, closed): every interleaving of the workers' inserts of any chunking of a parallel scan yields the sequential result as a set, provided the scan body reads only relations it does not write (par_insert_confluent, interleavings enumerated soundly and completely). Tied by (a) validating on the emitted transformed RAM of every generated program that each PARALLEL mark sits on a query whose read and write relations are disjoint and that carries no guarded insert/erase, (b) outputs at -j1,2,3,4,8,16 and under perturbed schedules (hook H6) all equal to the proved oracle.",
    "Trusted: Coq kernel; par_marks_ok reader of --show=transformed-ram (python, not proved); OpenMP scheduling is perturbed, not enumerated; races inside the B-tree/brie inserts belong to C25/C27; compiled float sum order (finding F5) is outside the theorem.",
    "Coq confluence theorem for parallel set inserts + RAM-artefact validation + differential runs over thread counts and perturbed schedules", "DESIGN.md §6 C03")

TV_NOTE = "Trusted: Coq kernel; extraction + S-expression reader; the generator's double rendering; fragment limits of the oracle (no mean, no float functors). The pipeline stage this property is about is NOT modelled: it is validated per generated program against the proved reference, nothing is proved about its code."

chk("C02", "translation_validation",
    "Per-program validation: every generated program is run by the interpreter, as single-file compiled executable (-c) and as multi-file one (-C); each output must equal the extracted reference evaluator, which is proved (Coq) to compute the unique stratified least model. The synthesiser's C++ emission and g++ are not modelled.",
    TV_NOTE + " g++ 12 / OpenMP compile and run the synthesised code.",
    "translation validation: differential against the Coq-proved reference evaluator", "DESIGN.md §6 C02")
chk("C04", "translation_validation",
    "Per-program validation: each switchable AST transformer disabled singly (-z), random subsets, random inline/no_inline markings of non-output relations; every run must equal the proved reference (stratified least model).",
    TV_NOTE, "translation validation: metamorphic option sweep against the Coq-proved reference evaluator", "DESIGN.md §6 C04")
chk("C05", "translation_validation",
    "Per-program validation: --magic-transform=* , random relation subsets, exclusion lists and magic/no_magic qualifiers; every run must equal the proved reference (stratified least model). Nothing is proved about MagicSet.cpp.",
    TV_NOTE, "translation validation: metamorphic option sweep against the Coq-proved reference evaluator", "DESIGN.md §6 C05")
chk("C06", "translation_validation",
    "Per-program validation: every RAM transformer skipped singly and in random subsets through hook H2 (interpreter -j4, some compiled); every run must equal the proved reference (stratified least model).",
    TV_NOTE + " Hook H2 implements the skipping.", "translation validation: metamorphic pass-skipping sweep against the Coq-proved reference evaluator", "DESIGN.md §6 C06")
chk("C07", "proof",
    "Theorem (Coq, closed): permuting the body atoms of rules leaves the immediate-consequence operator, every iterate and the least fixpoint unchanged (fire_perm_invariant, for any rule set). Tied per program: random valid .plan directives (a permutation per version of each recursive clause) and a profile-guided --auto-schedule run must reproduce the proved reference's outputs.",
    "Trusted: Coq kernel; the abstract rule semantics (fire) is not connected to ClauseTranslator by proof -- the join-order code is validated per program only; extraction + generator glue.",
    "Coq theorem on join-order invariance of the abstract rule semantics + per-program differential over plans / auto-schedule", "DESIGN.md §6 C07")
chk("C13", "proof",
    "Theorems (Coq, closed): the executable stratification check accepts a stratum arrangement iff a level function exists (positive edges non-increasing, negation/aggregation edges strictly decreasing); a program in which a relation depends on itself through negation or aggregation is rejected under EVERY arrangement of its clauses. Tied by verdict comparison: generated well-formed programs must be accepted by souffle and the model check; the same programs with one injected defect (negation/aggregation cycle, ungrounded head/negated/constraint variable, type mismatch) must be rejected with status 1, a diagnostic, and no output file; cycle verdicts of the extracted check and souffle are compared.",
    "Trusted: Coq kernel; groundedness and typing are not modelled (the injected defect's expected verdict is known by construction); python SCC computation proposes the arrangement the Coq check validates.",
    "Coq characterisation of the stratification check + verdict correspondence on defect-injected programs", "DESIGN.md §6 C13")

chk("C24", "proof",
    "Theorems (Coq, 31 obligations; 26 closed, the 5 about real-valued IEEE semantics modulo the standard library's real-number axioms): for ALL 32-bit arguments every integer/unsigned/bitwise/shift/logical/min-max/comparison/exponent/string operator's code-shaped definition equals its mathematical specification on the defined domain; float operators are IEEE-754 binary32 round-to-nearest-even (Coq SpecFloat, bridged to Flocq), float addition is proved non-associative by witness. Tied by one generated program that applies every operator to a boundary grid x random values in the interpreter AND the compiled executable, compared with the extracted model (floats as bit patterns).",
    "Trusted: Coq kernel; axioms of the 5 float theorems: ClassicalDedekindReals.sig_not_dec, sig_forall_dec, FunctionalExtensionality.functional_extensionality_dep, Classical_Prop.classic (standard library, via Flocq/Reals); extraction + driver; std::pow exactness assumed; NaN payloads canonicalised; FEXP, float<->string not modelled.",
    "Coq proofs operator-by-operator (code-shaped = specification) + differential correspondence on interpreter and compiled code", "DESIGN.md §6 C24")

HOOK_COMMITS += ["c33f71e7c"]

chk("C31", "proof",
    "Theorems (Coq, closed, 14 obligations) over a model of ConcurrentInsertOnlyHashMap::get whose steps are its atomic operations (lane lock, bucket-head load, CAS, size increment, the growth protocol) for any number of lanes/keys/steps: no key published twice, every node in its hash bucket, equal keys -> one node and different keys -> different nodes, exactly one `inserted` per key at quiescence, growth only while all other lanes are outside their load..CAS window and it preserves the published set, Size counts published nodes; flyweight: injective indices, fetch inverse, reserved index 0 never returned, iteration lists each assigned slot once; exhaustive explorations of contended instances with growth. Tied at step level for the hash map (hook H4, deterministic scheduler, schedule replayed in the extracted model with the real prime growth policy; responses, bucket count, chains, Size compared) and at API level for SymbolTableImpl/RecordTable (2-8 lanes, duplicates, growth, perturbed schedules; the bijection predicate itself evaluated).",
    "Trusted: Coq kernel (vm_compute in bounded theorems); extraction + driver; cpp/vsched.h, harnesses, hooks H4/H6; std::mutex as an atomic lock; sequential consistency; the flyweight model treats the map lookup as one step (tied at API level only); weakFind not modelled.",
    "Coq invariant proofs over an atomic-step model + step-level replay correspondence (hash map) + API-level predicate runs (symbol/record tables)", "DESIGN.md §6 C31")
chk("C17", "proof",
    "Theorems (Coq, closed, 12 obligations): for every accepted configuration (any delimiter, rfc4180, headers) and every row list whose fields satisfy the explicit predicate `representable`, reading the written file returns exactly the rows -- numbers over the full 32-bit ranges, arbitrary-byte symbols under rfc4180, nested/nil records, ADTs; tightness witnesses for what each format cannot represent; the writers before the repairs are proved not to round-trip. Tied at unit level: real WriteFileCSV/ReadFileCSV vs extracted model on generated tuple sets x 12 configurations (bytes written and tuples read compared token by token; every case the model proves representable must round-trip on the real code); at system level: store-then-load program pairs for tab/comma/rfc4180/headers/gzip/JSON/SQLite.",
    "Trusted: Coq kernel; extraction + driver; cpp/io_harness.cpp; float text formatting (libc), zlib, SQLite and the JSON streams are not modelled (system-level predicate only; four recorded findings there).",
    "Coq round-trip proof of the CSV/record/ADT text codec + differential correspondence with the real reader/writer", "DESIGN.md §6 C17")

chk("C09", "proof",
    "Theorems (Coq, closed, 17 obligations): (abstract scheme, any rules / contents) a semi-naive round adds exactly what a naive round adds, the loop exits iff the least fixpoint is reached and computes it (sound and complete), each body-tuple combination containing a new tuple is enumerated by exactly one version in exactly one round; (verified validator) a stratum skeleton accepted by the extracted checker IS an instance of that scheme -- versions enumerate exactly version_ok, head guard, @new inserts, preamble/exit/merge-swap-clear frame -- composed into 'the emitted stratum is a loop_run'. Tied by regenerating the model from the artefact: the RAM souffle itself prints for every generated recursive program is translated to skeletons and must be accepted by the proved checker; outputs must equal the proved oracle.",
    "Trusted: Coq kernel; harness/ramparse.py (RAM text -> skeleton; fails closed; nullary relations, `_` in SCC atoms, aggregates/generators inside recursive rules are counted as unsupported); typedness of RAM and delta-subset-of-main are hypotheses; the C++ translator is validated per emitted program, not modelled.",
    "Coq proofs of the semi-naive scheme + proved validator run on the RAM artefacts the real translator emits + oracle differential", "DESIGN.md §6 C09")
chk("C25", "proof",
    "Theorems (Coq, closed, 18 obligations) for every tree accepted by the executable well-formedness check (any depth/capacity): strictly ascending iteration, find/contains/lower_bound/upper_bound/size by the C++-shaped descent equal the sorted-list answers, hinted lookups agree with root descents, model insert refines set insertion with success exactly once per key, validated before/after dumps differ exactly by the key. Tied as a verified validator: the REAL node graph is dumped after every operation (3 keys per node) and must be accepted; all real API answers must equal the model's answers on that dump and a sorted-set model. Concurrent insertion (2-8 threads under the deterministic scheduler at the node-lock operations): final graph validated, union of keys, ascending iteration, exactly one success per distinct key -- explored, not proved.",
    "Trusted: Coq kernel; extraction + driver; cpp/btree_harness.cpp (dump, link checks), cpp/vsched.h, hook H1; the real insert/split/rebalance code is validated per state, not modelled; concurrent linearizability not proved.",
    "Coq-proved well-formedness validator + query refinement, run on real node-graph dumps; scheduled concurrent histories", "DESIGN.md §6 C25")
chk("C26", "proof",
    "As C25 for btree_delete_set with erase: the proved validator and query theorems apply to every dumped state of mixed insert/erase/query histories (validated_erase_step: a validated pair of dumps whose sets differ by the erased key has the right elements and membership); concurrent inserts as C25.",
    "Trusted: as C25; erase's borrow/merge logic is validated per state, not modelled.",
    "Coq-proved well-formedness validator + query refinement, run on real node-graph dumps of insert/erase histories", "DESIGN.md §6 C26")

chk("C16", "translation_validation",
    "Per-program validation: each generated flat program is wrapped into components five ways (plain, type parameter, inheritance with split rules, overridable relation with junk base rules, two nested instantiation levels); every instantiated relation must hold exactly the tuples of the flat relation per the proved reference. ComponentInstantiation.cpp itself is not modelled.",
    TV_NOTE, "translation validation: component-wrapping metamorphic variants against the Coq-proved reference evaluator", "DESIGN.md §6 C16")
chk("C20", "proof",
    "Theorems (Coq, closed): in the semi-naive scheme the per-round deltas are pairwise disjoint, disjoint from the preamble result, and their union with it is the final relation; for list-backed relations |R| = |R0| + sum of delta sizes -- the identity behind the profiler's relation size. Tied per program: outputs with -p at -j1/4/16 equal the proved reference, and every TUPLES entry of `souffleprof -c rel` equals the relation's true size.",
    "Trusted: Coq kernel; souffleprof's table layout (parsed by position); the profile event plumbing is not modelled.",
    "Coq counting theorem over the semi-naive scheme + per-program comparison of profiled sizes with true sizes", "DESIGN.md §6 C20")
chk("C22", "proof",
    "Theorems (Coq, closed): a counter whose uses are atomic fetch-and-adds hands out pairwise distinct values under every interleaving of any number of threads (below 2^31 draws), and the value set is schedule independent. Tied by runs: programs with four autoinc() uses in parallelisable rules at -j1..16 with perturbed schedules, interpreter and compiled: all counter values distinct, one per derivation.",
    "Trusted: Coq kernel; the atomicity of std::atomic<RamDomain>::operator++ is the model's only step (assumption); OpenMP scheduling perturbed, not enumerated.",
    "Coq uniqueness theorem for an atomic counter + exploration of real parallel runs checking the predicate", "DESIGN.md §6 C22")
chk("C23", "proof",
    "Theorems (Coq, closed): the semi-naive loop with the extra exit `|R| >= n` (evaluated on the main relation before the round's merge, as the emitted RAM does -- accepted and fed to loop_run by the proved validator) yields a subset of the least fixpoint, equals it when the fixpoint holds fewer than n tuples of R, and otherwise holds at least n. Tied per program: generated recursive programs with .limitsize on each recursive relation for limits around its unlimited size, judged against the proved reference.",
    "Trusted: Coq kernel; generator and oracle glue; programs restricted to positive recursion (limits interact non-monotonically with negation).",
    "Coq theorems on the limited loop + per-program check of the three clauses against the proved reference", "DESIGN.md §6 C23")

chk("C14", "exploration",
    "Fuzzing, stated as such (no theorem: a Gallina model is total by construction, so crash freedom of the C++ front end is not expressible in an executable model). Token-level and byte-level mutants of 13 feature-rich valid programs; souffle must end with status 0 or 1 within 20 s; anything else is minimised by token-level delta debugging and reported with the input.",
    "Exploration only. Crashes found so far were repaired (limitsize without n).",
    "mutation fuzzing of program text (exploration; not a proof)", "DESIGN.md §6 C14")
chk("C15", "proof",
    "Theorems (Coq, closed): for EVERY byte string the printed form of a string constant is a single STRING token of the scanner that lexes back to the same string, and printing is injective; the printer before the repair is proved not to round-trip. The rest of the printer/parser pair is tied by correspondence: for generated programs (functors, records, ADTs, aggregates, qualifiers, tricky string constants) the printed program must parse, printing it again must give the same text, and it must produce the outputs of the original (= the proved reference). Three printer defects found this way were repaired.",
    "Trusted: Coq kernel; python restatement of the escape table; only the string-constant codec is modelled -- the expression/declaration printers and parser.yy are tied by the three implementation-level predicates only (partial).",
    "Coq codec round-trip proof (string constants) + print/reparse/fixpoint/equal-output correspondence on generated programs", "DESIGN.md §6 C15")
chk("C28", "proof",
    "Theorems (Coq, closed, 20 obligations) over a sequential model with the implementation's shape: after any history of insert / insertAll / extendAndInsert, contains <-> closure of inserted pairs, insert reports new iff unrelated, size = sum of squared class sizes = length of iteration, full / per-element / per-pair iterations and partition ranges list exactly the closure pairs once each, the stale-flag cache is never read outdated, extendAndInsert's two post-states; the sentinel lookup and the (now repaired) unguarded antpostit are proved to misbehave. Tied by running the real EquivalenceRelation and the extracted model on the same histories (all answers incl. exact iteration order compared; the model-independent closure spec compared with the real contains) and by concurrent insert runs judged against the closure at quiescence.",
    "Trusted: Coq kernel; extraction + driver; cpp/eqrel_harness.cpp; the model is sequential -- concurrent insertion is explored (union-find interleavings are C29's theorem); LambdaBTree map as association list.",
    "Coq refinement proof of the eqrel structure against the closure specification + differential correspondence", "DESIGN.md §6 C28")
