"""C22 -- Auto-increment values are unique within a run.

proof:  Properties_C22.v -- a counter whose every use is one atomic fetch-and-add hands out pairwise distinct values under
        every interleaving of any number of threads (fewer than 2^31 draws), and the set of values does not depend on the
        interleaving. The atomicity of `counter++` on std::atomic is the model's assumption.
tie:    programs deriving many tuples with autoinc() in parallelisable rules (one or two uses per rule, several rules,
        joins with duplicates) at -j1,2,4,8,16, perturbed schedules, interpreter and compiled: every value of the counter
        column must be distinct across the whole run, and the number of values must equal the number of derivations.
"""
import os

import common as C

LEVEL = "proof"


def program(rng):
    n = rng.range(50, 400)
    m = rng.range(2, 6)
    shapes = rng.range(0, 2)
    lines = [".decl e(x:number)", ".input e", ".decl f(x:number, y:number)", ".input f",
             ".decl a(x:number, c:number)", ".output a", ".decl b(x:number, y:number, c:number)", ".output b",
             ".decl c2(x:number, c:number, d:number)", ".output c2",
             "a(x, autoinc()) :- e(x).",
             "b(x, y, autoinc()) :- e(x), f(x, y).",
             "c2(x, autoinc(), autoinc()) :- e(x), x %% %d = 0." % m]
    e = list(range(n))
    f = [(x, y) for x in range(0, n, rng.range(1, 3)) for y in range(rng.range(1, 4))]
    expect = {"a": len(e), "b": len([1 for x, y in f if x < n]), "c2": len([x for x in e if x % m == 0])}
    return "\n".join(lines) + "\n", e, f, expect


def main(pid, tier, seed, replay):
    chk = C.Check(pid, LEVEL, tier, seed)
    rng = chk.rng
    souffle = C.build_souffle()
    chk.proof_stage()
    nprog = 6 if tier == "quick" else 60
    runs = []
    for i in range(nprog):
        r = rng.fork("p%d" % i)
        text, e, f, expect = program(r)
        d = C.fresh_dir("c22", str(i))
        open(os.path.join(d, "p.dl"), "w").write(text)
        open(os.path.join(d, "e.facts"), "w").write("".join("%d\n" % x for x in e))
        open(os.path.join(d, "f.facts"), "w").write("".join("%d\t%d\n" % t for t in f))
        for j in (1, 2, 4, 8, 16):
            for pert in (None, "1", "2"):
                runs.append((i, d, j, pert, False, expect, text))
        if i < (2 if tier == "quick" else 10):
            runs.append((i, d, 8, None, True, expect, text))

    def one(k):
        i, d, j, pert, compiled, expect, text = runs[k]
        out = os.path.join(d, "out_%d" % k)
        os.makedirs(out, exist_ok=True)
        dl = os.path.join(d, "p.dl")
        if compiled:
            dl = os.path.join(d, "pc.dl")
            open(dl, "w").write(text)
        cmd = [souffle, "-w"] + (["-c"] if compiled else []) + [dl, "-F", d, "-D", out, "-j", str(j)]
        rc, so, se = C.sh(cmd, timeout=900, env={"SOUFFLE_VERIF_PERTURB": pert} if pert else None, cwd=d)
        return rc, se, out
    res = C.parallel_map(one, range(len(runs)))
    total_vals = 0
    distinct = set()
    for (i, d, j, pert, compiled, expect, text), (rc, se, out) in zip(runs, res):
        rep = {"program": text, "jobs": j, "perturb": pert, "compiled": compiled, "facts": "e = 0..n-1, f as written in %s" % d}
        if rc != 0:
            chk.finding(None, "souffle failed (status %s): %s" % (rc, se[-200:]), rep)
            continue
        vals = []
        for rel, col in (("a", [1]), ("b", [2]), ("c2", [1, 2])):
            rows = [l.split("\t") for l in open(os.path.join(out, rel + ".csv")).read().splitlines()]
            if len(rows) != expect[rel]:
                chk.finding(None, "relation %s holds %d tuples, %d derivations expected (a repeated counter value merges tuples)" % (rel, len(rows), expect[rel]), rep)
            for r in rows:
                vals += [int(r[c]) for c in col]
        total_vals += len(vals)
        want = expect["a"] + expect["b"] + 2 * expect["c2"]
        if len(set(vals)) != len(vals):
            dup = sorted(v for v in set(vals) if vals.count(v) > 1)[:5]
            chk.finding(None, "auto-increment values repeated within one run: %s" % dup, rep)
        elif len(vals) != want:
            chk.finding(None, "%d counter values for %d uses of autoinc()" % (len(vals), want), rep)
        distinct.add((i, j, pert, compiled))
        if len(chk.samples) < 3 and j > 1:
            chk.sample({"jobs": j, "perturb": pert, "compiled": compiled, "counter_values": len(vals), "min": min(vals), "max": max(vals)})
    chk.cov.update({"evaluations": len(runs), "distinct_nontrivial": len(distinct),
                    "rule": "programs with 4 uses of autoinc() in 3 parallelisable rules over 50-400 input tuples x threads {1,2,4,8,16} x perturbation {off, 2 seeds}, some compiled; "
                            "non-trivial = distinct (program, threads, perturbation, backend) run", "traces_validated_against_impl": len(runs), "counter_values_checked": total_vals})
    chk.assumptions = ["`counter++` on std::atomic<RamDomain> is an atomic fetch-and-add (the model's step)"]
    return chk.finish(["Coq 8.16.1 kernel; Properties_C22.v closed under the global context", "hook H6 perturbation; OpenMP scheduling is perturbed, not enumerated",
                       "modelled: the counter only; the evaluation around it is exercised, not modelled"])
