"""C20 -- Profiling is transparent and reports true relation sizes.

proof:  Properties_C20.v -- in the semi-naive scheme the per-round deltas are pairwise disjoint and disjoint from the
        preamble result, and the final relation is their union: |R| = |R0| + sum of the per-iteration delta sizes, which is
        the identity the profiler's relation size (non-recursive size + per-iteration copy counts) rests on.
tie:    outputs with -p (at -j1, -j4, -j16) equal the proved oracle; the TUPLES column of `souffleprof -c rel` is compared
        with the number of tuples each relation holds (output files / fact files) for every relation without eqrel storage.
"""
import os
import re

import common as C
import pipeline as P

LEVEL = "proof"


def features(r):
    return P.random_features(r, always=["recursion"], never=["hidden"])


def parse_rel_table(text):
    sizes = {}
    for line in text.splitlines():
        cols = line.split()
        if len(cols) >= 11 and re.match(r"^R\d+$", cols[-2]):
            sizes[cols[-1]] = cols[6]
    return sizes


def main(pid, tier, seed, replay):
    jobs = {}

    def mk(j):
        cfg = P.Config("profile -j%d" % j, jobs=j)

        def pre(p, d, dlname):
            prof = os.path.join(d, "prof_j%d.json" % j)
            jobs.setdefault(d, []).append((j, prof))
            return ["-p", prof]
        cfg.pre = pre
        return cfg
    cfgs = [P.Config("no profile"), mk(1), mk(4), mk(16)]

    def post(chk, progs, oracle, stats):
        prof_bin = os.path.join(C.BUILD, "src", "souffleprof")
        compared = mism = 0
        for i, (p, o) in enumerate(zip(progs, oracle)):
            if o[0] != "ok":
                continue
            d = os.path.join(C.WORK, "cases", pid, str(i))
            expect = {r.name: len(o[1][r.name]) for r in p.rels if r.output and r.repr != "eqrel"}
            for r in p.rels:
                if r.kind == "edb":
                    expect[r.name] = len(p.facts.get(r.name, []))
            for j, prof in jobs.get(d, []):
                if not os.path.exists(prof):
                    continue
                rc, out, err = C.sh([prof_bin, prof, "-c", "rel"], timeout=60)
                sizes = parse_rel_table(out)
                for name, n in expect.items():
                    if name not in sizes:
                        continue          # relations removed by optimisation are not profiled
                    compared += 1
                    if sizes[name] != str(n):
                        mism += 1
                        chk.finding(None, "profile (-j%d) reports %s tuples for relation %s, which holds %d" % (j, sizes[name], name, n),
                                    P.replay_obj(p, None, {"jobs": j, "profile_table": out[:1500]}))
        stats["relation_sizes_compared"] = compared
        stats["size_mismatches"] = mism
    return P.standard_check(pid, LEVEL, tier, seed, lambda p: cfgs, 30, 500, features,
        "generated programs (recursive and not) run without and with -p at -j1/-j4/-j16; every profiled relation's TUPLES entry compared with its true size; "
        "non-trivial = distinct program with non-empty output", post=post,
        extra_tb=["souffleprof's relation table as printed (parsed by column position)"])
