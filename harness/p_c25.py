"""C25 / C26 -- B-tree sets (plain and deletable) behave as sorted sets; concurrent insertion.

proof:  Properties_C25.v / Properties_C26.v (BTreeDefs/BTreeLemmas): for EVERY tree accepted by the executable `wf`
        (any depth, any capacity >= 3): in-order elements strictly ascending; iteration = elements; contains / find /
        lower_bound / upper_bound / size computed by the C++-shaped descent equal the sorted-list answers; hinted
        lookups on any covering subtree agree with the root descent; the model insert (3/4 split point) refines set
        insertion, reports `fresh` exactly for new keys, success exactly once per key over a history; a validated
        before/after pair of dumps whose element sets differ by one key has the right elements, membership and size
        (insert and erase); chunk lists that concatenate to the elements partition the set.
tie:    verified validator: after EVERY operation the harness dumps the REAL node graph (small block size: 3 keys per
        node, splits and merges all the time); the extracted, proved `wf` must accept it, its element list must be the
        sorted-set model's, and every real API answer (insert/erase result, contains, lower/upper bound, size,
        partition chunks) must equal what the model functions compute on that dump; parent/position/leftmost links
        and the implementers' own check() are verified in the harness.
        concurrent inserts: the same histories split over 2-8 threads under the deterministic scheduler (hook H1 in the
        node locks): afterwards the dump is validated, iteration is strictly ascending, the key set is the union and
        each distinct key was reported inserted exactly once. (The concurrent clause is explored, not proved.)
"""
import os

import common as C

LEVEL = "proof"
OFF = 2 ** 31


def enc(a, b):
    return (a + OFF) * 2 ** 32 + (b + OFF)


def gen_keys(rng, n, style):
    if style == "sorted":
        base = rng.range(-5, 5)
        return [(base + i // 3, i % 3) for i in range(n)]
    if style == "reverse":
        base = rng.range(-5, 5)
        return [(base + (n - i) // 3, (n - i) % 3) for i in range(n)]
    if style == "dups":
        return [(rng.range(0, 3), rng.range(0, 3)) for _ in range(n)]
    if style == "extreme":
        pool = [-OFF, OFF - 1, -1, 0, 1, OFF - 2, -OFF + 1]
        return [(rng.choice(pool), rng.choice(pool)) for _ in range(n)]
    return [(rng.range(-20, 20), rng.range(-3, 3)) for _ in range(n)]


def seq_history(rng, kind):
    if kind == "delete" and rng.chance(1, 3):
        # grow, then drain: a tree of 3-5 levels is built and then emptied from the front, the back, the middle or at
        # random, so that leaves merge, inner nodes underflow and borrow from / merge with their left and right siblings,
        # and the root collapses -- with a dump (validated) after every erase and bound queries in between
        n = rng.range(20, 260)
        keys = gen_keys(rng, n, rng.choice(["sorted", "reverse", "random"]))
        ops = ["i:%d:%d" % k for k in keys] + ["d"]
        distinct = sorted(set(keys))
        order = rng.choice(["front", "back", "middle", "random", "runs", "runs"])
        if order == "runs":
            # runs of neighbouring keys at random places: one leaf underflows while its neighbours are still full, so
            # it must BORROW (from the left or the right) instead of merging
            todo, out_ = list(distinct), []
            while todo and len(out_) < len(distinct) * 3 // 4:
                s = rng.below(len(todo))
                run = todo[s: s + rng.range(2, 6)]
                out_ += run
                todo = [k for k in todo if k not in run]
            distinct = out_ + todo
        if order == "back":
            distinct.reverse()
        elif order == "middle":
            mid = len(distinct) // 2
            distinct = [distinct[mid + (-1) ** i * ((i + 1) // 2)] for i in range(len(distinct)) if 0 <= mid + (-1) ** i * ((i + 1) // 2) < len(distinct)]
        elif order == "random":
            distinct = rng.shuffle(distinct)
        for k in distinct[: rng.range(len(distinct) // 2, len(distinct))]:
            ops.append("e:%d:%d" % k)
            ops.append("d")
            if rng.chance(1, 4):
                q = rng.choice(keys)
                ops.append(rng.choice(["c", "l", "u"]) + ":%d:%d" % q)
        ops += ["z", "p:%d" % rng.range(1, 5), "d"]
        return ops
    n = rng.range(3, 40)
    keys = gen_keys(rng, n, rng.choice(["sorted", "reverse", "random", "dups", "extreme", "random"]))
    ops = []
    for (a, b) in keys:
        c = rng.below(10)
        if kind == "delete" and c < 3:
            k = rng.choice(keys)
            ops.append("e:%d:%d" % k)
        else:
            ops.append("i:%d:%d" % (a, b))
        ops.append("d")
        if rng.chance(1, 3):
            q = rng.choice(keys) if rng.chance(2, 3) else (rng.range(-21, 21), rng.range(-4, 4))
            ops.append(rng.choice(["c", "l", "u"]) + ":%d:%d" % q)
    ops += ["z", "p:%d" % rng.range(1, 5), "d"]
    return ops


def check_seq(chk, kind, hints, ops, answers, model_exe, maxkeys, stats):
    """replay a sequential history against the python sorted-set model and the proved validator"""
    toks = [t.strip() for t in answers.split(" | ")]
    if len(toks) != len(ops):
        return "harness printed %d answers for %d operations" % (len(toks), len(ops))
    cur = set()
    pending = []        # queries to evaluate on the next dump
    lines = []          # (dump, queries, expected answers from the real API)
    last_dump = None
    for op, ans in zip(ops, toks):
        k = op[0]
        if k in "iecllu" and ":" in op:
            a, b = map(int, op.split(":")[1:])
            e = enc(a, b)
        if k == "i":
            exp = "t" if e not in cur else "f"
            cur.add(e)
            if ans != exp:
                return "insert %s reported %s, the set model says %s" % (op, ans, exp)
        elif k == "e":
            exp = "1" if e in cur else "0"
            cur.discard(e)
            if ans != exp:
                return "erase %s reported %s, the set model says %s" % (op, ans, exp)
        elif k == "c":
            exp = "t" if e in cur else "f"
            if ans != exp:
                return "contains %s answered %s, the set model says %s" % (op, ans, exp)
            pending.append(("c:%d" % e, ans))
        elif k in "lu":
            cand = sorted(x for x in cur if (x >= e if k == "l" else x > e))
            exp = str(cand[0]) if cand else "end"
            if ans != exp:
                return "%s_bound %s answered %s, the set model says %s" % ("lower" if k == "l" else "upper", op, ans, exp)
            pending.append(("%s:%d" % (k, e), ans))
        elif k == "z":
            if int(ans) != len(cur):
                return "size() = %s, the set holds %d keys" % (ans, len(cur))
        elif k == "p":
            body = ans.split("=", 1)[1]
            chunks = [c.split(",") if c else [] for c in body.strip("{}").split("}{")] if body else []
            flat = [int(x) for c in chunks for x in c if x]
            if flat != sorted(cur):
                return "partition chunks do not concatenate to the sorted contents: %s" % ans[:200]
        elif k == "d":
            parts = ans.split("=")
            dump, links, ck = parts[1], parts[2], parts[3]
            if links != "links-ok":
                return "parent / position / leftmost links are inconsistent after %s" % op
            if ck != "check-ok":
                return "the tree's own check() fails"
            pending = []                 # queries issued after this dump (and before the next mutation) are evaluated on it
            lines.append((dump, pending, sorted(cur)))
    stats["dumps"] += len(lines)
    inp = "".join("%d %s ; %s\n" % (maxkeys, d, " ".join(q for q, _ in qs)) for d, qs, _ in lines)
    rc, out, err = C.sh([model_exe], input=inp.encode(), timeout=600)
    for (d, qs, elems), ml in zip(lines, out.splitlines()):
        sec = [s.strip() for s in ml.split(";")]
        if sec[0] != "wf t":
            return "the proved validator rejects a real node graph: %s -> %s" % (d[:300], ml[:80])
        if [int(x) for x in sec[2].split()[1:]] != elems:
            return "validated dump holds %s, the set model %s" % (sec[2][:200], elems[:20])
        got = sec[3].split() if len(sec) > 3 and sec[3] else []
        if got != [a for _, a in qs]:
            return "model query answers on the validated dump %s differ from the real API answers %s" % (got, [a for _, a in qs])
        stats["queries"] += len(qs)
    return None


def par_history(rng):
    n = rng.range(2, 8)
    keys = gen_keys(rng, rng.range(6, 40), rng.choice(["sorted", "reverse", "random", "dups", "random"]))
    parts = [[] for _ in range(n)]
    for k in keys:
        parts[rng.below(n)].append(k)
        if rng.chance(1, 4):
            parts[rng.below(n)].append(k)      # the same key raced by two threads
    return n, parts


def run(pid, tier, seed, kinds):
    chk = C.Check(pid, LEVEL, tier, seed)
    rng = chk.rng
    harness = C.compile_cpp(os.path.join(C.CPP, "btree_harness.cpp"), os.path.join(C.WORK, "bin", "btree_harness"))
    chk.proof_stage()
    model = C.ocaml_driver("btree")
    rc, out, _ = C.sh([harness], input=b"maxkeys\n")
    mk = dict(zip(("plain", "delete", "plainw", "deletew"), map(int, out.split())))
    stats = {"dumps": 0, "queries": 0, "seq_histories": 0, "par_histories": 0, "par_steps": 0, "maxKeys": mk}
    nseq = 400 if tier == "quick" else 8000
    hist = []
    for i in range(nseq):
        r = rng.fork("seq%d" % i)
        base = r.choice(kinds)
        kind = base + ("w" if r.chance(1, 2) else "")       # half of the histories on wide (12-key) nodes
        hints = r.below(2)
        hist.append((kind, hints, seq_history(r, base)))
    rc, out, err = C.sh([harness], input="".join("seq %s %d %s\n" % (k, h, " ".join(o)) for k, h, o in hist).encode(), timeout=3000)
    lines = out.splitlines()
    distinct = set()
    if rc != 0 or len(lines) != len(hist):
        k, h, o = hist[min(len(lines), len(hist) - 1)]
        chk.finding(None, "the real B-tree crashed (rc=%s) during a sequential history" % rc, {"history": "seq %s %d %s" % (k, h, " ".join(o))})
    for (kind, hints, ops), ans in zip(hist, lines):
        stats["seq_histories"] += 1
        bad = check_seq(chk, kind, hints, ops, ans, model, mk[kind], stats)
        if bad:
            chk.finding(None, "%s fails on the real %s B-tree: %s" % (pid, kind, bad), {"history": "seq %s %d %s" % (kind, hints, " ".join(ops)), "answers": ans[:2000]})
        elif sum(1 for o in ops if o[0] in "ie") >= 4:
            distinct.add(" ".join(ops))
        if len(chk.samples) < 2:
            chk.sample({"history": "seq %s %d %s" % (kind, hints, " ".join(ops[:30])), "answers": ans[:400]})
    # concurrent insertion under the deterministic scheduler
    npar = 120 if tier == "quick" else 3000
    pars = []
    for i in range(npar):
        r = rng.fork("par%d" % i)
        n, parts = par_history(r)
        pars.append((r.choice(kinds) + ("w" if r.chance(1, 4) else ""), r.below(2), n, r.next() % (1 << 31), r.choice([15, 40, 75]), parts))
    inp = "".join("par %s %d %d %d %d | %s |\n" % (k, h, n, sd, sw, " | ".join(" ".join("i:%d:%d" % x for x in p) for p in parts)) for k, h, n, sd, sw, parts in pars)
    rc, out, err = C.sh([harness], input=inp.encode(), timeout=3000)
    plines = out.splitlines()
    if rc != 0 or len(plines) != len(pars):
        chk.finding(None, "the real B-tree crashed or hung (rc=%s) during a concurrent history" % rc, {"history": inp.splitlines()[min(len(plines), len(pars) - 1)]})
    dumps = []
    for (kind, hints, n, sd, sw, parts), l in zip(pars, plines):
        stats["par_histories"] += 1
        rep = {"history": "par %s %d %d %d %d | %s |" % (kind, hints, n, sd, sw, " | ".join(" ".join("i:%d:%d" % x for x in p) for p in parts)), "result": l[:1500]}
        try:
            head, rest = l.split(" dump=", 1)
            dump, links, rest2 = rest.split("=", 2)
            flags = {t.split(":")[0]: t.split(":")[1] for t in head.split() if t.startswith("T")}
            steps = int(head.split("steps ")[1].split()[0])
            stats["par_steps"] += steps
            it = [int(x) for x in rest2.split(" iter")[1].split()]
            size = int(rest2.split("size ")[1].split()[0])
        except Exception as e:
            chk.finding(None, "unreadable result of a concurrent history: %s" % e, rep)
            continue
        allkeys = sorted(set(enc(*k) for p in parts for k in p))
        bad = None
        if "STUCK" in head:
            bad = "an insert never finished under the schedule (deadlock / livelock)"
        elif links != "links-ok" or "check-ok" not in rest2:
            bad = "links or check() broken after concurrent inserts"
        elif it != allkeys:
            bad = "iteration %s is not the ascending union of the inserted keys %s" % (it[:12], allkeys[:12])
        elif size != len(allkeys):
            bad = "size() %d differs from the number of distinct keys %d" % (size, len(allkeys))
        else:
            succ = {}
            for t, p in enumerate(parts):
                for k, f in zip(p, flags.get("T%d" % t, "")):
                    succ[enc(*k)] = succ.get(enc(*k), 0) + (1 if f == "t" else 0)
            wrong = [k for k in allkeys if succ.get(k, 0) != 1]
            if wrong:
                bad = "keys %s were reported inserted %s times" % (wrong[:5], [succ.get(k, 0) for k in wrong[:5]])
        if bad:
            chk.finding(None, "%s fails under concurrent insertion: %s" % (pid, bad), rep)
        else:
            dumps.append((mk[kind], dump, allkeys))
            distinct.add(rep["history"])
    rc, out, err = C.sh([model], input="".join("%d %s ; \n" % (m, d) for m, d, _ in dumps).encode(), timeout=600)
    for (m, d, keys), ml in zip(dumps, out.splitlines()):
        sec = [s.strip() for s in ml.split(";")]
        if sec[0] != "wf t" or [int(x) for x in sec[2].split()[1:]] != keys:
            chk.finding(None, "the proved validator rejects the node graph left by concurrent inserts", {"dump": d[:1500], "validator": ml[:200]})
    chk.cov.update({"evaluations": stats["seq_histories"] + stats["par_histories"], "distinct_nontrivial": len(distinct),
                    "rule": "sequential histories (sorted / reverse / random / duplicate-heavy / extreme keys, with and without hints, %s) with a dump after every mutation, and the same key families split over 2-8 threads "
                            "under seeded schedules; non-trivial = distinct history with at least 4 mutations" % ("insert+erase" if "delete" in kinds else "insert only"),
                    "traces_validated_against_impl": stats["dumps"], "stats": stats})
    chk.assumptions = ["keys are pairs of RamDomain under the default lexicographic comparator, encoded monotonically as one integer", "concurrent linearizability is explored under the scheduler, not proved"]
    return chk.finish(["Coq 8.16.1 kernel; Properties_%s.v closed under the global context" % pid, "extraction ExtrOcamlBasic; ocaml/btree_driver.ml",
                       "cpp/btree_harness.cpp (subclass exposing root / nodes; dump routine; link checks), cpp/vsched.h, hook H1",
                       "python sorted-set model in harness/p_c25.py", "modelled: node graph well-formedness and the query descent; the real mutators are validated, not modelled"])


def main(pid, tier, seed, replay):
    return run(pid, tier, seed, ["plain"])
