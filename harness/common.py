"""Shared machinery for all checks: builds, Coq obligations, evidence, findings, PRNG.

Every check is `./check <ID> [--tier quick|thorough] [--replay FILE]` and goes through
`run_check` below, which (1) rebuilds what the property needs from /repo's working
tree, (2) re-checks the property's Coq theorems and parses `Print Assumptions`,
(3) runs the property module's correspondence / validator / search stages, (4) writes
evidence/<id>.json, (5) prints KNOWN-FINDING / VIOLATION lines and sets the exit code.
"""
import hashlib
import json
import os
import re
import shutil
import subprocess
import sys
import time

VERIF = os.path.dirname(os.path.dirname(os.path.abspath(__file__)))
REPO = os.environ.get("VERIF_REPO", "/repo")
WORK = os.path.join(VERIF, "_work")
BUILD = os.path.join(WORK, "build")
COQ = os.path.join(VERIF, "coq")
OCAML = os.path.join(VERIF, "ocaml")
CPP = os.path.join(VERIF, "cpp")
EVID = os.path.join(VERIF, "evidence")
REPLAYS = os.path.join(VERIF, "replays")
NCPU = os.cpu_count() or 4
GUARD = "SOUFFLE_VERIF"

ALLOWED_AXIOMS = {
    # standard-library axioms that may appear (named in the trusted base when they do)
    "functional_extensionality_dep", "FunctionalExtensionality.functional_extensionality_dep",
    "ClassicalDedekindReals.sig_forall_dec", "ClassicalDedekindReals.sig_not_dec",
    "sig_forall_dec", "sig_not_dec", "Classical_Prop.classic", "classic",
    "ProofIrrelevance.proof_irrelevance", "proof_irrelevance", "JMeq.JMeq_eq", "JMeq_eq",
    "Eqdep.Eq_rect_eq.eq_rect_eq", "eq_rect_eq",
}


# ----------------------------------------------------------------------------- PRNG
class SplitMix64:
    """All random choices of a check derive from one of these, seeded by VERIF_SEED."""

    def __init__(self, seed):
        self.s = seed & 0xFFFFFFFFFFFFFFFF

    def next(self):
        self.s = (self.s + 0x9E3779B97F4A7C15) & 0xFFFFFFFFFFFFFFFF
        z = self.s
        z = ((z ^ (z >> 30)) * 0xBF58476D1CE4E5B9) & 0xFFFFFFFFFFFFFFFF
        z = ((z ^ (z >> 27)) * 0x94D049BB133111EB) & 0xFFFFFFFFFFFFFFFF
        return z ^ (z >> 31)

    def below(self, n):
        return self.next() % n if n > 0 else 0

    def range(self, lo, hi):  # inclusive
        return lo + self.below(hi - lo + 1)

    def choice(self, xs):
        return xs[self.below(len(xs))]

    def chance(self, num, den):
        return self.below(den) < num

    def shuffle(self, xs):
        xs = list(xs)
        for i in range(len(xs) - 1, 0, -1):
            j = self.below(i + 1)
            xs[i], xs[j] = xs[j], xs[i]
        return xs

    def fork(self, tag):
        h = int.from_bytes(hashlib.sha256(("%d/%s" % (self.s, tag)).encode()).digest()[:8], "big")
        return SplitMix64(h)


# ----------------------------------------------------------------------------- shell
def sh(cmd, timeout=600, cwd=None, env=None, input=None, check=False):
    """Run a command (list or string); returns (rc, stdout, stderr). rc=-9 on timeout."""
    shell = isinstance(cmd, str)
    e = dict(os.environ)
    if env:
        e.update(env)
    # time limits are stated for an idle 16-core machine; on a loaded one (other checks, builds) they are stretched in
    # proportion, so that a slow run is never mistaken for a hang of the code under test
    try:
        timeout = timeout * max(1.0, os.getloadavg()[0] / max(1, os.cpu_count() or 1))
    except OSError:
        pass
    try:
        p = subprocess.run(cmd, shell=shell, cwd=cwd, env=e, input=input, timeout=timeout,
                           stdout=subprocess.PIPE, stderr=subprocess.PIPE)
        rc, out, err = p.returncode, p.stdout, p.stderr
    except subprocess.TimeoutExpired as t:
        rc, out, err = -9, t.stdout or b"", (t.stderr or b"") + b"\n[timeout]"
    out = out.decode("utf-8", "replace") if isinstance(out, bytes) else out
    err = err.decode("utf-8", "replace") if isinstance(err, bytes) else err
    if check and rc != 0:
        raise RuntimeError("command failed (%s): %s\n%s\n%s" % (rc, cmd, out[-3000:], err[-3000:]))
    return rc, out, err


def sha(*parts):
    h = hashlib.sha256()
    for p in parts:
        h.update(p if isinstance(p, bytes) else str(p).encode())
        h.update(b"\0")
    return h.hexdigest()[:16]


# ----------------------------------------------------------------------------- builds
class BuildError(Exception):
    pass


def build_souffle(targets=("souffle", "souffleprof")):
    """Incremental build of /repo's *current working tree* with hooks on (-DSOUFFLE_VERIF)."""
    os.makedirs(WORK, exist_ok=True)
    if not os.path.exists(os.path.join(BUILD, "build.ninja")):
        rc, out, err = sh(["cmake", "-G", "Ninja", "-S", REPO, "-B", BUILD, "-DCMAKE_BUILD_TYPE=None",
                           "-DCMAKE_CXX_FLAGS=-Wno-error -O1 -g0 -D" + GUARD,
                           "-DSOUFFLE_ENABLE_TESTING=OFF", "-DSOUFFLE_GIT=OFF"], timeout=600)
        if rc != 0:
            raise BuildError("cmake configure failed:\n" + out[-2000:] + err[-2000:])
    rc, out, err = sh(["ninja", "-C", BUILD] + list(targets), timeout=3600)
    if rc != 0:
        raise BuildError("ninja failed:\n" + out[-4000:] + err[-2000:])
    return os.path.join(BUILD, "src", "souffle")


def souffle_bin():
    return os.path.join(BUILD, "src", "souffle")


def compile_cpp(src, out, extra=(), std="c++17", opt="-O1", timeout=900):
    """Compile a harness against /repo's headers (always from the current working tree).
    Re-uses the binary when the preprocessed-dependency hash is unchanged."""
    os.makedirs(os.path.dirname(out), exist_ok=True)
    inc = ["-I", os.path.join(REPO, "src", "include"), "-I", os.path.join(REPO, "src"), "-I", CPP]
    base = ["g++", "-std=" + std, opt, "-g0", "-fopenmp", "-D" + GUARD, "-DRAM_DOMAIN_SIZE=32"] + inc + list(extra)
    rc, deps, err = sh(base + ["-MM", src], timeout=120)
    if rc != 0:
        raise BuildError("dependency scan failed for %s:\n%s" % (src, err[-3000:]))
    files = [f for f in deps.replace("\\\n", " ").split()[1:] if os.path.exists(f)]
    h = hashlib.sha256(" ".join(base).encode())
    for f in sorted(set(files)):
        with open(f, "rb") as fh:
            h.update(fh.read())
    stamp = out + ".hash"
    digest = h.hexdigest()
    if os.path.exists(out) and os.path.exists(stamp) and open(stamp).read() == digest:
        return out
    rc, o, err = sh(base + [src, "-o", out, "-lpthread"], timeout=timeout)
    if rc != 0:
        raise BuildError("compile failed for %s:\n%s" % (src, err[-4000:]))
    with open(stamp, "w") as fh:
        fh.write(digest)
    return out


def run_resumable(binary, lines, timeout=6000, env=None, max_restarts=200):
    """Feed one case per line to a scheduler harness that answers one line per case. A case whose threads cannot be finished
    (deadlock / livelock under the schedule) makes the harness print `STUCK-EXIT ...` as that case's answer and exit with
    status 3 (cpp/vsched.h); the harness is then restarted on the remaining cases. Returns (answers, crashed_at):
    answers has one entry per case (None for cases never answered), crashed_at the index of a case that killed the
    harness in any other way (or None)."""
    answers = []
    restarts = 0
    t_end = time.time() + timeout
    while len(answers) < len(lines):
        rest = lines[len(answers):]
        rc, out, err = sh([binary], input="".join(l + "\n" for l in rest).encode(), timeout=max(10, t_end - time.time()), env=env)
        got = out.splitlines()
        answers += got[: len(rest)]
        if len(got) >= len(rest):
            break
        if rc == 3 and got and got[-1].startswith("STUCK-EXIT") and restarts < max_restarts:
            restarts += 1
            continue
        crashed = len(answers)
        answers += [None] * (len(lines) - len(answers))
        return answers, crashed
    return answers, None


# ----------------------------------------------------------------------------- Coq
HYGIENE_RE = re.compile(r"\b(Admitted|admit|Axiom|Axioms|Parameter|Parameters|Conjecture|Conjectures|Admit Obligations)\b|Unset Guard|bypass_check|type-in-type|impredicative-set")


def coq_hygiene():
    bad = []
    tdir = os.path.join(COQ, "theories")
    for root, _, fs in os.walk(COQ):
        for f in fs:
            if not f.endswith(".v"):
                continue
            p = os.path.join(root, f)
            txt = open(p, encoding="utf-8", errors="replace").read()
            txt = re.sub(r"\(\*.*?\*\)", "", txt, flags=re.S)
            for i, line in enumerate(txt.split("\n"), 1):
                if HYGIENE_RE.search(line):
                    bad.append("%s:%d: %s" % (os.path.relpath(p, VERIF), i, line.strip()[:120]))
    for f in ("_CoqProject",):
        txt = open(os.path.join(COQ, f)).read()
        if "type-in-type" in txt or "impredicative-set" in txt:
            bad.append("_CoqProject passes a forbidden flag")
    return bad


def coq_make(targets, timeout=1800):
    if not os.path.exists(os.path.join(COQ, "Makefile")):
        sh("coq_makefile -f _CoqProject -o Makefile", cwd=COQ, check=True)
    return sh(["make", "-k", "-j%d" % NCPU] + list(targets), cwd=COQ, timeout=timeout)


def coq_obligations(pid, extra_files=()):
    """Re-check theories/Properties_<pid>.v (and its dependencies) and parse Print Assumptions.
    Returns dict(obligations, discharged, theorems=[{name, status, axioms}], axioms=set, log)."""
    t0 = time.time()
    rel = "theories/Properties_%s" % pid
    src = os.path.join(COQ, rel + ".v")
    for ext in (".vo", ".glob", ".vos", ".vok"):
        try:
            os.remove(os.path.join(COQ, rel + ext))
        except OSError:
            pass
    txt = open(src).read()
    txt_nc = re.sub(r"\(\*.*?\*\)", "", txt, flags=re.S)
    thms = re.findall(r"^\s*(?:Theorem|Corollary)\s+([A-Za-z0-9_']+)", txt_nc, flags=re.M)
    printed = re.findall(r"^\s*Print Assumptions\s+([A-Za-z0-9_'.]+)\s*\.", txt_nc, flags=re.M)
    rc, out, err = coq_make([rel + ".vo"] + list(extra_files))
    log = out + "\n" + err
    res = []
    axioms = set()
    if rc == 0:
        blocks = re.split(r"^(?=Closed under the global context|Axioms:)", out, flags=re.M)
        blocks = [b for b in blocks if b.startswith("Closed under") or b.startswith("Axioms:")]
        for i, name in enumerate(printed):
            if i >= len(blocks):
                res.append({"name": name, "status": "no-assumption-output", "axioms": []})
                continue
            b = blocks[i]
            if b.startswith("Closed under"):
                res.append({"name": name, "status": "closed", "axioms": []})
            else:
                ax = [a for a in re.findall(r"^([A-Za-z0-9_'.]+)\s*:", b, flags=re.M) if a != "Axioms"]
                ok = all(a in ALLOWED_AXIOMS or a.split(".")[-1] in ALLOWED_AXIOMS for a in ax)
                axioms.update(ax)
                res.append({"name": name, "status": "closed-modulo-stdlib-axioms" if ok else "foreign-axiom", "axioms": ax})
        for name in thms:
            if name not in printed:
                res.append({"name": name, "status": "no-print-assumptions", "axioms": []})
    else:
        for name in thms:
            res.append({"name": name, "status": "compile-failed", "axioms": []})
    discharged = sum(1 for r in res if r["status"] in ("closed", "closed-modulo-stdlib-axioms"))
    return {"obligations": max(len(res), len(thms)), "discharged": discharged, "theorems": res,
            "axioms": sorted(axioms), "rc": rc, "log": log[-6000:], "wall_s": round(time.time() - t0, 2),
            "checker_cmd": "cd coq && make -k theories/Properties_%s.vo  (coqc 8.16.1, full .vo build; Print Assumptions parsed)" % pid}


def ocaml_driver(name):
    """Build (make) the extracted-model OCaml driver ocaml/<name>/driver.exe; returns its path."""
    d = os.path.join(OCAML, name)
    rc, out, err = sh(["make", "-s", "-C", OCAML, name], timeout=1800)
    if rc != 0:
        raise BuildError("ocaml driver %s failed:\n%s\n%s" % (name, out[-3000:], err[-3000:]))
    return os.path.join(OCAML, "_build", name + ".exe")


# ----------------------------------------------------------------------------- findings
def load_known_findings():
    p = os.path.join(VERIF, "known_findings.json")
    if not os.path.exists(p):
        return []
    return json.load(open(p)).get("findings", [])


class Check:
    """Collects what one run covered; writes evidence; prints the verdict."""

    def __init__(self, pid, level, tier, seed):
        self.pid, self.level, self.tier, self.seed = pid, level, tier, seed
        self.t0 = time.time()
        self.cov = {}
        self.assumptions = []
        self.violations = []   # (replay_path, no_input_found, text)
        self.known_hits = []   # (key, text)
        self.samples = []
        self.known = [f for f in load_known_findings() if f.get("property") == pid and f.get("status", "open") == "open"]
        self.rng = SplitMix64(seed)
        self.notes = []

    # -- reporting
    def sample(self, x, limit=6):
        if len(self.samples) < limit:
            self.samples.append(x)

    def known_finding_key(self, key):
        for f in self.known:
            if f["key"] == key:
                return f
        return None

    def finding(self, key, text, replay_obj):
        """Report a property failure observed on the implementation. If `key` is listed in
        known_findings.json it becomes a KNOWN-FINDING line, otherwise a VIOLATION."""
        f = self.known_finding_key(key) if key else None
        if f is not None:
            if key not in [k for k, _ in self.known_hits]:
                self.known_hits.append((key, f.get("what", text)))
            return False
        self.violation(text, replay_obj)
        return True

    MAX_REPORTED = 8

    def violation(self, text, replay_obj, no_input=False):
        if len(self.violations) >= self.MAX_REPORTED:
            self.suppressed = getattr(self, "suppressed", 0) + 1
            return
        d = os.path.join(REPLAYS, self.pid)
        os.makedirs(d, exist_ok=True)
        path = os.path.join(d, "%s-%d-%d.json" % (self.tier, self.seed, len(self.violations)))
        obj = {"property": self.pid, "what": text, "seed": self.seed, "tier": self.tier,
               "no_failing_input_found": bool(no_input), "replay": replay_obj}
        with open(path, "w") as fh:
            json.dump(obj, fh, indent=1, default=str)
        self.violations.append((path, no_input, text))

    def proof_stage(self, pid=None):
        """Run the Coq obligations; a failure becomes a violation with no-failing-input-found
        unless the caller later finds a failing input (callers may upgrade)."""
        bad = coq_hygiene()
        pids = (pid or self.pid).split("+")      # "C04+C04b": several property files, obligations added up
        ob = coq_obligations(pids[0])
        for extra in pids[1:]:
            o2 = coq_obligations(extra)
            for k in ("obligations", "discharged", "wall_s"):
                ob[k] += o2[k]
            ob["theorems"] += o2["theorems"]
            ob["axioms"] = sorted(set(ob["axioms"]) | set(o2["axioms"]))
            ob["rc"] = ob["rc"] or o2["rc"]
            ob["log"] += o2["log"]
            ob["checker_cmd"] += " ; " + o2["checker_cmd"]
        self.cov["obligations"] = ob["obligations"]
        self.cov["discharged"] = ob["discharged"]
        self.cov["checker_cmd"] = ob["checker_cmd"]
        self.cov["theorems"] = ob["theorems"]
        self.cov["coq_wall_s"] = ob["wall_s"]
        self.cov["hygiene_hits"] = bad
        self.ob = ob
        if bad:
            self.violation("Coq hygiene: forbidden declaration present: %s" % bad[:3],
                           {"theorem": "hygiene", "hits": bad}, no_input=True)
        if ob["discharged"] != ob["obligations"] or ob["obligations"] == 0:
            failing = [t for t in ob["theorems"] if t["status"] not in ("closed", "closed-modulo-stdlib-axioms")]
            self.violation("proof obligations not discharged: %s" % [t["name"] for t in failing][:5],
                           {"theorem": [t["name"] for t in failing], "log": ob["log"][-3000:]}, no_input=True)
        return ob

    def finish(self, trusted_base, explanation=None):
        cov = self.cov
        cov.setdefault("samples", self.samples if self.samples else ["(no sample recorded)"])
        cov["trusted_base"] = trusted_base
        if explanation:
            cov["explanation"] = explanation
        cov["known_findings_reobserved"] = [k for k, _ in self.known_hits]
        cov["notes"] = self.notes
        cov["further_violations_not_listed"] = getattr(self, "suppressed", 0)
        ev = {"property_id": self.pid, "tier": self.tier, "seed": self.seed, "level": self.level,
              "coverage": cov, "assumptions": self.assumptions, "wall_s": round(time.time() - self.t0, 2),
              "violations": len(self.violations)}
        os.makedirs(EVID, exist_ok=True)
        with open(os.path.join(EVID, self.pid + ".json"), "w") as fh:
            json.dump(ev, fh, indent=1, default=str)
        for key, what in self.known_hits:
            print("KNOWN-FINDING: property=%s %s" % (self.pid, what))
        for path, no_input, text in self.violations:
            print("# %s" % text[:300])
            print("VIOLATION property=%s replay=%s%s" % (self.pid, path, " no-failing-input-found" if no_input else ""))
        sys.stdout.flush()
        return 1 if self.violations else 0


def parallel_map(fn, items, workers=None):
    from concurrent.futures import ThreadPoolExecutor
    with ThreadPoolExecutor(max_workers=workers or NCPU) as ex:
        return list(ex.map(fn, items))


def fresh_dir(*parts):
    d = os.path.join(WORK, *parts)
    shutil.rmtree(d, ignore_errors=True)
    os.makedirs(d)
    return d
