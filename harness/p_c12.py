"""C12 -- Lattice relations hold one least-upper-bound value per key.

proof:  Properties_C12.v (LatticeDefs/Lemmas on ContractDefs): the extracted checker accepts a final database iff the relation
        has one tuple per key, the stored lattice value of every key is the join of all values its rules derive for that
        key from the final database (hence the least upper bound w.r.t. a <= b := join a b = b, independent of the order in
        which the values were merged), and every stored key is derivable.
tie:    verified validator on REAL outputs of three lattice families (max, min, bitwise-or; user-defined join/meet functors
        in a small C++ library built by the check, as lattices require) with non-recursive and recursive (propagating)
        rules, interpreter at -j1/-j4 and compiled; plus an independent least-fixpoint computation in python.
"""
import os

import common as C
import dl as D
import gen as G

LEVEL = "proof"

FUNCTORS = r'''
#include "souffle/RecordTable.h"
#include "souffle/SymbolTable.h"
#include <algorithm>
using souffle::RamDomain;
static RamDomain get(souffle::RecordTable* rt, RamDomain r) { return rt->unpack(r, 1)[0]; }
static RamDomain mk(souffle::RecordTable* rt, RamDomain v) { RamDomain t[1] = {v}; return rt->pack(t, 1); }
extern "C" {
RamDomain jmax(souffle::SymbolTable*, souffle::RecordTable* rt, RamDomain a, RamDomain b) { return mk(rt, std::max(get(rt, a), get(rt, b))); }
RamDomain jmin(souffle::SymbolTable*, souffle::RecordTable* rt, RamDomain a, RamDomain b) { return mk(rt, std::min(get(rt, a), get(rt, b))); }
RamDomain jbor(souffle::SymbolTable*, souffle::RecordTable* rt, RamDomain a, RamDomain b) { return mk(rt, get(rt, a) | get(rt, b)); }
RamDomain jband(souffle::SymbolTable*, souffle::RecordTable* rt, RamDomain a, RamDomain b) { return mk(rt, get(rt, a) & get(rt, b)); }
}
'''
KINDS = {"max": ("jmax", "jmin", -1000000, max), "min": ("jmin", "jmax", 1000000, min), "bor": ("jbor", "jband", 0, lambda a, b: a | b)}


def family(rng):
    kind = rng.choice(sorted(KINDS))
    lub, glb, bottom, _ = KINDS[kind]
    p = G.Prog()
    p.features = {"lattice", kind}
    p.records["V"] = ["number"]
    mk = lambda name, types, k: p.rels.append(G.Rel(len(p.rels), name, types, k)) or p.rels[-1]
    e = mk("e", ["number", "number"], "edb")
    link = mk("link", ["number", "number"], "edb")
    r = mk("r", ["number", "V"], "idb")
    r.output, r.layer = True, 1
    V = lambda n, t="number": ("var", n, t)
    k, k2, v, l = V("k"), V("k2"), V("v"), V("l", "V")
    p.clauses.append(("r", [k, ("rec", "V", [v])], [("pos", "e", [k, v])]))
    recursive = rng.chance(2, 3)
    if recursive:
        p.clauses.append(("r", [k2, l], [("pos", "r", [k, l]), ("pos", "link", [k, k2])]))
    if rng.chance(1, 2):
        p.clauses.append(("r", [k, ("rec", "V", [("num", rng.range(0, 9), "number")])], [("pos", "link", [k, ("anon", "number")])]))
    nk = rng.range(2, 6)
    p.facts["e"] = list({(rng.below(nk), rng.range(0, 63) if kind == "bor" else rng.range(-20, 20)) for _ in range(rng.range(2, 12))})
    p.facts["link"] = list({(rng.below(nk), rng.below(nk)) for _ in range(rng.range(0, 8))})
    head = (".functor %s(a:V, b:V):V stateful\n.functor %s(a:V, b:V):V stateful\n.lattice V<> { Bottom -> [%d], Lub -> @%s(_,_), Glb -> @%s(_,_) }\n" % (lub, glb, bottom, lub, glb))
    return p, kind, head


def render(p, head):
    txt = p.render_dl()
    txt = txt.replace(".type V = [f0:number]\n", ".type V = [f0:number]\n" + head)
    return txt.replace("c1:V)", "c1:V<>)")


def python_lfp(p, kind):
    j = KINDS[kind][3]
    val = {}
    changed = True
    consts = [(c[1][0], c[1][1][2][0][1]) for c in p.clauses if c[2] and c[2][0][1] == "link" and c[0] == "r" and c[1][1][0] == "rec" and c[1][1][2][0][0] == "num"]
    rec = any(c[2][0][1] == "r" for c in p.clauses if c[2])
    while changed:
        changed = False
        cand = list(p.facts["e"])
        for (a, b) in p.facts["link"]:
            for _, cv in consts:
                cand.append((a, cv))
            if rec and a in val:
                cand.append((b, val[a]))
        for k, v in cand:
            nv = v if k not in val else j(val[k], v)
            if val.get(k) != nv:
                val[k] = nv
                changed = True
    return sorted("%d\t[%d]" % kv for kv in val.items())


def main(pid, tier, seed, replay):
    chk = C.Check(pid, LEVEL, tier, seed)
    rng = chk.rng
    souffle = C.build_souffle()
    chk.proof_stage()
    checker = C.ocaml_driver("lattice")
    base = C.fresh_dir("c12")
    open(os.path.join(base, "functors.cpp"), "w").write(FUNCTORS)
    rc, so, se = C.sh(["g++", "-shared", "-fPIC", "-std=c++17", "-DRAM_DOMAIN_SIZE=32", "-I", os.path.join(C.REPO, "src", "include"), os.path.join(base, "functors.cpp"), "-o", os.path.join(base, "libfunctors.so")], timeout=300)
    if rc != 0:
        raise C.BuildError("functor library: " + se[-500:])
    nprog = 40 if tier == "quick" else 800
    fams = [family(rng.fork("f%d" % i)) for i in range(nprog)]
    runs = []
    for i, (p, kind, head) in enumerate(fams):
        d = os.path.join(base, str(i))
        D.write_case(p, d, dl_text=render(p, head))
        os.symlink(os.path.join(base, "libfunctors.so"), os.path.join(d, "libfunctors.so"))
        for j in (1, 4):
            runs.append((i, d, j, False))
        if i % 10 == 0:
            runs.append((i, d, 2, True))

    def one(k):
        i, d, j, compiled = runs[k]
        p, kind, head = fams[i]
        dl = "p.dl"
        if compiled:
            dl = "pc.dl"
            open(os.path.join(d, dl), "w").write(render(p, head))
        return D.run_souffle(p, d, args=(["-c"] if compiled else []) + ["-L", d], outsub="out_%d" % k, timeout=900, jobs=j, dl=dl, env={"LD_LIBRARY_PATH": d})
    res = C.parallel_map(one, range(len(runs)))
    lines, meta = [], []
    for (i, d, j, compiled), (rc, se, outs) in zip(runs, res):
        p, kind, head = fams[i]
        rep = {"program": render(p, head), "facts": {"e": p.facts_text("e"), "link": p.facts_text("link")}, "jobs": j, "compiled": compiled}
        if rc != 0:
            chk.finding(None, "souffle failed (status %s) on a lattice program: %s" % (rc, se[-300:]), rep)
            continue
        rows = outs["r"]
        exp = python_lfp(p, kind)
        if sorted(rows) != exp:
            chk.finding(None, "lattice relation differs from the least fixpoint over the lattice: souffle %s, expected %s" % (sorted(rows)[:6], exp[:6]), rep)
            continue
        db = []
        for rel in p.rels:
            if rel.kind == "edb":
                db.append("(%d %s)" % (rel.id, " ".join("(" + " ".join("(n %d)" % v for v in t) + ")" for t in p.facts[rel.name])))
        db.append("(%d %s)" % (p.rel("r").id, " ".join("((n %s) (r (n %s)))" % (row.split("\t")[0], row.split("\t")[1].strip("[]")) for row in rows)))
        cls = " ".join(p.clause_sx(c) for c in p.clauses)
        lines.append("(lattice (db %s) (rel %d) (join %s) (clauses %s))" % (" ".join(db), p.rel("r").id, kind, cls))
        meta.append((rep, rows, kind))
    rc, out, err = C.sh([checker], input=("\n".join(lines) + "\n").encode(), timeout=1200)
    distinct = set()
    kinds = {}
    for (rep, rows, kind), v in zip(meta, out.splitlines()):
        v = v.strip()
        if v == "ok":
            kinds[kind] = kinds.get(kind, 0) + 1
            distinct.add((rep["program"], str(rep["facts"]), rep["jobs"], rep["compiled"]))
            if len(chk.samples) < 3:
                chk.sample({"lattice": kind, "rows": rows[:6], "jobs": rep["jobs"], "compiled": rep["compiled"]})
        elif v.startswith("nohyp") or v in ("stuck", "undef") or v.startswith("parse"):
            chk.violation("the lattice checker could not judge a run (%s)" % v[:80], dict(rep, validator="LatticeDefs.lattice_ok", rows=rows), no_input=True)
        else:
            chk.finding(None, "lattice contract violated by souffle's result: %s" % v[:200], dict(rep, rows=rows))
    chk.cov.update({"evaluations": len(runs), "distinct_nontrivial": len(distinct),
                    "rule": "max / min / bitwise-or lattices over a one-field record, base rule + optional constant rule + optional recursive propagation along a random graph, x {-j1, -j4, compiled}; "
                            "non-trivial = distinct accepted run", "traces_validated_against_impl": len(meta), "accepted_by_lattice": kinds})
    chk.assumptions = ["joins are the three intrinsic families (the user-defined C++ functors of the test library implement exactly them)", "the lattice column is the last column"]
    return chk.finish(["Coq 8.16.1 kernel; Properties_C12.v", "extraction ExtrOcamlBasic; ocaml/lattice_driver.ml", "the functor library compiled by the check (harness/p_c12.py FUNCTORS)",
                       "python least-fixpoint computation as a second, independent expectation", "modelled: the contract; InsertLatticeOperations / the lub RAM sequence are validated on results"])
