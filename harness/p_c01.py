"""C01 -- Evaluation computes the stratified least model (interpreter).

proof:  Properties_C01.v: the reference evaluator (DatalogDefs.run_program) computes the declaratively
        defined stratified least model (sound, complete, duplicate free) -- for every program and input.
tie:    the extracted evaluator and the freshly built souffle interpreter run the same generated
        programs + facts; every output relation must be equal as a set and free of duplicates.
search: a mismatch inside the fragment (oracle did not report an undefined operation) is a failing
        program; it is shrunk (clauses, facts) and written as the replay.
"""
import os

import common as C
import pipeline as P

LEVEL = "proof"


def features(r):
    base = ["neg", "cmp", "arith", "bits", "strings", "records", "adts", "agg", "range", "recursion", "mutual",
            "unsigned", "symbols", "multi_rec_atoms", "sentinels"]
    return [f for f in base if r.chance(1, 2)]


def main(pid, tier, seed, replay):
    chk = C.Check(pid, LEVEL, tier, seed)
    C.build_souffle()
    chk.proof_stage()
    n = 160 if tier == "quick" else 3000
    progs = P.gen_programs(chk.rng.fork("c01"), n, features)
    cfgs = [P.Config("interpreter -j1", jobs=1)]
    stats, _ = P.differential(chk, progs, lambda p: cfgs, nontrivial=lambda p, o: any(o[1].values()))
    # float aggregates are outside the Coq reference: judged against an exact python expectation (harness/floatagg.py)
    __import__("floatagg").post_step(12, 200)(chk, progs, None, stats)
    chk.cov.update({"evaluations": stats["runs"], "distinct_nontrivial": stats["distinct_nontrivial"],
                    "rule": "seeded generator over the feature lattice (negation, constraints, int/unsigned/bit/string functors, records, ADTs, "
                            "aggregates incl. empty groups, range, recursion, mutual recursion, sentinel values); non-trivial = distinct program "
                            "whose oracle result has a non-empty output relation; programs on which the oracle reports an undefined operation are discarded",
                    "traces_validated_against_impl": stats["runs"], "stats": stats})
    chk.assumptions = ["generator's double rendering (text / S-expression) of one AST", "values outside the defined domain excluded (oracle reports them)"]
    return chk.finish(TB)


TB = ["Coq 8.16.1 kernel; Print Assumptions of every theorem in Properties_C01.v",
      "extraction (ExtrOcamlBasic), ocaml/datalog_driver.ml S-expression reader, zarith for text<->Z",
      "harness/gen.py double rendering, harness/dl.py output canonicalisation (rows compared as sorted text lines)",
      "modelled, not verified: ast2ram translation, RAM transformations, interpreter Engine (all of /repo/src): tied only by this correspondence"]
