"""C09 -- Semi-naive evaluation is complete and non-redundant.

proof:  Properties_C09.v (abstract scheme, any rule set / relation contents): one semi-naive round adds exactly what a naive
        round adds (step_eq_naive), the loop exits iff the fixpoint is reached, the result is the least fixpoint (sound +
        complete), every combination of body tuples containing a new tuple is enumerated by exactly one version
        (version_unique / version_exists) in exactly one round (combo_round_unique).
        Properties_C09b.v (verified validator): a stratum skeleton accepted by the extracted checker is an instance of
        that scheme: the versions of each clause enumerate exactly `version_ok R D i`, the head guard is `not in R`,
        inserts go to @new, and the frame (preamble, exit test, merge/swap/clear) is the abstract loop -- composed into
        `emitted stratum is a loop_run`.
tie:    the RAM that souffle ITSELF emits (--show=initial-ram) for every generated recursive program is translated to
        skeletons (harness/ramparse.py, fails closed) and must be accepted by the proved checker; outputs equal the proved
        oracle, on dense random graphs so that every version fires over several rounds.
search: a rejected stratum: if souffle's output differs from the oracle on generated facts the program + facts are the
        failing input; otherwise the VIOLATION names the validator (no-failing-input-found).
"""
import os

import common as C
import dl as D
import pipeline as P
import ramparse

LEVEL = "proof"


def features(r):
    f = ["recursion"]
    for x in ("mutual", "multi_rec_atoms", "cmp", "neg", "arith", "symbols", "unsigned", "nullary"):
        if r.chance(1, 2):
            f.append(x)
    return f


def gated(rng):
    """directed family: a recursive stratum {b, gate, a} in which a rule joins a growing relation with a GATE of the same
    stratum that becomes true in some middle round -- a nullary relation, a relation read only through wildcards, or an
    ordinary unary one. Every b-tuple found after the gate opened must still be combined with the (by then old) gate tuple;
    the shapes without a scan (nullary, all-wildcard) are exactly those the RAM validator does not cover, so the differential
    against the proved least model carries them."""
    import gen as G
    p = G.Prog()
    p.features = {"recursion", "mutual", "multi_rec_atoms", "gated"}
    mk = lambda name, types, kind: p.rels.append(G.Rel(len(p.rels), name, types, kind)) or p.rels[-1]
    n = rng.range(3, 9)
    e = mk("e", ["number", "number"], "edb")
    p.facts["e"] = list({(i, i + 1) for i in range(1, n)} | {(rng.range(1, n), rng.range(1, n)) for _ in range(rng.range(0, 3))})
    shape = rng.choice(["nullary", "nullary", "wild", "unary"])
    b = mk("b", ["number"], "idb")
    g = mk("g", {"nullary": [], "wild": ["number", "number"], "unary": ["number"]}[shape], "idb")
    a = mk("a", ["number"], "idb")
    for r in (b, g, a):
        r.layer, r.output = 1, True
    V = lambda nm: ("var", nm, "number")
    N = lambda z: ("num", z, "number")
    k = rng.range(1, n)
    p.clauses.append(("b", [N(1)], []))
    p.clauses.append(("b", [V("y")], [("pos", "b", [V("x")]), ("pos", "e", [V("x"), V("y")])]))
    ghead = {"nullary": [], "wild": [V("x"), V("x")], "unary": [N(7)]}[shape]
    p.clauses.append(("g", ghead, [("pos", "b", [V("x")]), ("cmp", "eq", V("x"), N(k))]))
    gatom = ("pos", "g", {"nullary": [], "wild": [("anon", "number"), ("anon", "number")], "unary": [("anon", "number")]}[shape])
    body = [("pos", "b", [V("x")]), gatom]
    if rng.chance(1, 2):
        body.reverse()
    p.clauses.append(("a", [V("x")], body))
    p.clauses.append(("b", [V("y")], [("pos", "a", [V("x")]), ("cmp", "eq", V("x"), N(rng.range(1, n))), ("cmp", "eq", V("y"), ("op", "add", [V("x"), N(100)], "number"))]))
    return p


def main(pid, tier, seed, replay):
    chk = C.Check(pid, LEVEL, tier, seed)
    souffle = C.build_souffle()
    ob1 = chk.proof_stage("C09")
    thms = list(chk.cov["theorems"])
    ob2 = chk.proof_stage("C09b")
    chk.cov["theorems"] = thms + chk.cov["theorems"]
    chk.cov["obligations"] = ob1["obligations"] + ob2["obligations"]
    chk.cov["discharged"] = ob1["discharged"] + ob2["discharged"]
    chk.cov["checker_cmd"] = "cd coq && make -k theories/Properties_C09.vo theories/Properties_C09b.vo (coqc 8.16.1; Print Assumptions parsed)"
    validator = C.ocaml_driver("snram")
    n = 120 if tier == "quick" else 2500
    progs = P.gen_programs(chk.rng.fork(pid), n, features, size=2.0)
    progs += [gated(chk.rng.fork("gated%d" % i)) for i in range(24 if tier == "quick" else 400)]
    stats, oracle = P.differential(chk, progs, lambda p: [P.Config("interpreter -j1")],
                                   nontrivial=lambda p, o: max(o[2] or [0]) >= 2)
    vstats = {"strata": 0, "accepted": 0, "unsupported_by_translator": {}, "rejected": 0, "max_scc_atoms": 0, "versions": 0}
    for i, (p, o) in enumerate(zip(progs, oracle)):
        if o[0] != "ok":
            continue
        d = os.path.join(C.WORK, "cases", pid, str(i))
        rc, out, err = C.sh([souffle, "-w", os.path.join(d, "p.dl"), "--show=initial-ram"], timeout=60)
        if rc != 0:
            continue
        res = ramparse.strata(out)
        oks = [r for r in res if r[0] == "ok"]
        for r in res:
            vstats["strata"] += 1
            if r[0] != "ok":
                key = r[1].split(":")[0][:50]
                vstats["unsupported_by_translator"][key] = vstats["unsupported_by_translator"].get(key, 0) + 1
        if not oks:
            continue
        rc, vout, verr = C.sh([validator], input="".join(r[1] + "\n" for r in oks).encode(), timeout=120)
        for r, verdict in zip(oks, vout.splitlines()):
            vstats["versions"] += r[2]["versions"]
            vstats["max_scc_atoms"] = max(vstats["max_scc_atoms"], r[2]["max_scc_atoms"])
            if verdict.strip() == "ok":
                vstats["accepted"] += 1
                if len(chk.samples) < 3 and r[2]["max_scc_atoms"] >= 2:
                    chk.sample({"skeleton": r[1][:1200], "info": r[2], "verdict": verdict})
                continue
            vstats["rejected"] += 1
            # search: does the real evaluation of this very program differ from the least fixpoint?
            drun = os.path.join(d)
            rc2, se, outs = D.run_souffle(p, drun, jobs=1)
            differs = rc2 == 0 and bool(D.diff_outputs(o[1], outs))
            rep = P.replay_obj(p, None, {"validator": "SemiNaiveRam.stratum_check (theorems C09_emitted_*)", "verdict": verdict, "skeleton": r[1][:3000], "relations": r[2]["relations"]})
            if differs:
                chk.finding(None, "semi-naive RAM rejected by the validator (%s) and the evaluation result differs from the least fixpoint" % verdict, rep)
            else:
                chk.violation("the emitted RAM of a recursive stratum is not accepted as an instance of the semi-naive scheme: %s" % verdict, rep, no_input=True)
    chk.cov.update({"evaluations": stats["runs"] + vstats["strata"], "distinct_nontrivial": stats["distinct_nontrivial"],
                    "rule": "generated recursive programs (1-3 recursive atoms per rule, mutual recursion, negation of lower strata, constraints) on dense random facts; "
                            "non-trivial = distinct program whose oracle evaluation needed at least 2 productive rounds in some stratum; every LOOP of the emitted initial RAM goes through the proved validator",
                    "traces_validated_against_impl": stats["runs"], "stats": stats, "validator": vstats})
    chk.assumptions = ["harness/ramparse.py reads the RAM text faithfully (fails closed: unknown constructs are counted as unsupported, never accepted)",
                       "typed RAM (scanned tuples have the relation's arity) and delta subset of main: hypotheses of the validator theorems"]
    return chk.finish(P.PIPE_TB + ["ocaml/snram_driver.ml + extraction of SemiNaiveRam.stratum_check", "harness/ramparse.py (RAM text -> skeleton)"])
