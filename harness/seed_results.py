#!/usr/bin/env python3
"""Builds seeded/RESULTS.json from the logs of the runs in which each stored seeded change was applied to /repo
(`git -C /repo apply`), the registered quick check was run, and the change was undone (`git -C /repo checkout -- .`).
usage: seed_results.py <name>=<check id>:<log file> ...      (several entries per name allowed)
harness/seeded.py performs the same procedure from scratch for all stored changes (about five minutes per change)."""
import json
import os
import sys
import time

V = os.path.dirname(os.path.dirname(os.path.abspath(__file__)))
rp = os.path.join(V, "seeded", "RESULTS.json")
results = json.load(open(rp)) if os.path.exists(rp) else {}
for arg in sys.argv[1:]:
    name, rest = arg.split("=", 1)
    pid, log = rest.split(":", 1)
    out = open(log, errors="replace").read().splitlines()
    viol = [l for l in out if l.startswith("VIOLATION")]
    ex = [l for l in out if l.startswith("exit=")]
    res = results.setdefault(name, {"applied": True, "checks": {}})
    res["checks"][pid] = {"exit": int(ex[-1].split("=")[1]) if ex else (1 if viol else None), "violations": len(viol), "first": viol[:2],
                          "with_concrete_input": sum(1 for l in viol if "no-failing-input-found" not in l),
                          "no_failing_input_only": bool(viol) and all("no-failing-input-found" in l for l in viol),
                          "reason": [l[2:220] for l in out if l.startswith("# ")][:2],
                          "log_time": time.strftime("%Y-%m-%d %H:%M", time.localtime(os.path.getmtime(log)))}
json.dump(results, open(rp, "w"), indent=1, sort_keys=True)
for k, v in sorted(results.items()):
    print(k, {p: ("caught" if c["violations"] else "MISSED") + ("" if not c["violations"] else (" (concrete input)" if c["with_concrete_input"] else " (no-failing-input)")) for p, c in v["checks"].items()})
