"""C26 -- Deletable B-trees behave as sorted sets (insert, erase, queries; concurrent inserts). See p_c25.py."""
import p_c25

LEVEL = "proof"


def main(pid, tier, seed, replay):
    return p_c25.run(pid, tier, seed, ["delete"])
