"""C06 -- RAM-level optimisations preserve results.
tie: hook H2 (SOUFFLE_VERIF_RAM_SKIP) turns each RAM transformer off singly and in random subsets; outputs equal the oracle."""
import pipeline as P

LEVEL = "translation_validation"
RAM_PASSES = ["MakeIndexTransformer", "ExpandFilterTransformer", "HoistConditionsTransformer", "IfConversionTransformer",
              "IfExistsConversionTransformer", "CollapseFiltersTransformer", "TupleIdTransformer", "HoistAggregateTransformer",
              "EliminateDuplicatesTransformer", "ReorderConditionsTransformer", "ReorderFilterBreak", "ParallelTransformer"]


def features(r):
    return P.random_features(r, always=["cmp"])


def make_configs(rng, compiled_every):
    count = [0]

    def configs(p):
        r = rng.fork(P.prog_hash(p))
        cs = [P.Config("all passes -j4", jobs=4)]
        cs += [P.Config("skip " + t, env={"SOUFFLE_VERIF_RAM_SKIP": t}, jobs=4) for t in RAM_PASSES]
        for k in range(3):
            sub = [t for t in RAM_PASSES if r.chance(1, 3)]
            if sub:
                cs.append(P.Config("skip " + ",".join(sub), env={"SOUFFLE_VERIF_RAM_SKIP": ",".join(sub)}, jobs=4))
        count[0] += 1
        if compiled_every and count[0] % compiled_every == 0:
            t = r.choice(RAM_PASSES)
            cs.append(P.Config("compiled skip " + t, env={"SOUFFLE_VERIF_RAM_SKIP": t}, jobs=2, compiled=True, transform=lambda q: q.render_dl()))
        return cs
    return configs


def main(pid, tier, seed, replay):
    import common as C
    return P.standard_check(pid, LEVEL, tier, seed, make_configs(C.SplitMix64(seed), 16 if tier == "quick" else 5), 48, 400, features, proof_pid="C06", rule=
        "generated programs x {each RAM transformer skipped singly, 3 random subsets} in the interpreter at -j4, one compiled run per few programs; "
        "non-trivial = distinct program with non-empty output",
        extra_tb=["hook H2 in ram/transform/Transformer.cpp (guarded) implements the skipping"])
