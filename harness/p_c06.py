"""C06 -- RAM-level optimisations preserve results.
tie: hook H2 (SOUFFLE_VERIF_RAM_SKIP) turns each RAM transformer off singly and in random subsets; outputs equal the oracle."""
import pipeline as P

LEVEL = "translation_validation"
RAM_PASSES = ["MakeIndexTransformer", "ExpandFilterTransformer", "HoistConditionsTransformer", "IfConversionTransformer",
              "IfExistsConversionTransformer", "CollapseFiltersTransformer", "TupleIdTransformer", "HoistAggregateTransformer",
              "EliminateDuplicatesTransformer", "ReorderConditionsTransformer", "ReorderFilterBreak", "ParallelTransformer"]


def features(r):
    return P.random_features(r, always=["cmp"])


def make_configs(rng, compiled_every):
    count = [0]

    def configs(p):
        r = rng.fork(P.prog_hash(p))
        cs = [P.Config("all passes -j4", jobs=4)]
        cs += [P.Config("skip " + t, env={"SOUFFLE_VERIF_RAM_SKIP": t}, jobs=4) for t in RAM_PASSES]
        for k in range(3):
            sub = [t for t in RAM_PASSES if r.chance(1, 3)]
            if sub:
                cs.append(P.Config("skip " + ",".join(sub), env={"SOUFFLE_VERIF_RAM_SKIP": ",".join(sub)}, jobs=4))
        count[0] += 1
        if compiled_every and count[0] % compiled_every == 0:
            t = r.choice(RAM_PASSES)
            cs.append(P.Config("compiled skip " + t, env={"SOUFFLE_VERIF_RAM_SKIP": t}, jobs=2, compiled=True, transform=lambda q: q.render_dl()))
        return cs
    return configs


def agg_bounds(rng):
    """directed family for the passes that move work across scans (HoistAggregate / HoistConditions / MakeIndex on aggregates):
    an aggregate nested under two or three scans whose body is bounded -- from below, from above or on both sides, weakly or
    strictly -- by variables that different enclosing scans bind, next to an equality on the outermost one"""
    import gen as G
    p = G.Prog()
    p.features = {"agg", "cmp", "agg_bounds"}
    mk = lambda name, types, kind: p.rels.append(G.Rel(len(p.rels), name, types, kind)) or p.rels[-1]
    mk("a", ["number"], "edb"); mk("d", ["number"], "edb"); mk("g", ["number"], "edb"); mk("b", ["number", "number"], "edb")
    r = mk("r", ["number", "number", "number"], "idb")
    r.layer, r.output = 1, True
    small = lambda k: list({(rng.range(-2, 6),) for _ in range(k)})
    p.facts["a"], p.facts["d"], p.facts["g"] = small(rng.range(2, 5)), small(rng.range(2, 5)), small(rng.range(1, 3))
    p.facts["b"] = list({(rng.range(-2, 6), rng.range(-3, 8)) for _ in range(rng.range(4, 14))})
    V = lambda nm: ("var", nm, "number")
    x, y, w, z, c = V("x"), V("y"), V("w"), V("z"), V("c")
    outer = [("pos", "a", [x]), ("pos", "d", [y])]
    if rng.chance(1, 2):
        outer.append(("pos", "g", [w]))
    if rng.chance(1, 3):
        outer[0], outer[1] = outer[1], outer[0]
    body = [("pos", "b", [x if rng.chance(3, 4) else ("anon", "number"), z])]
    bounds = [v for v in (y, w) if any(v in l[2] for l in outer)]
    for v in bounds if rng.chance(1, 2) else bounds[:1]:
        body.append(("cmp", rng.choice(["le", "le", "le", "ge", "ge", "lt", "gt", "ne"]), z, v))      # weak bounds become index bounds
    kind = rng.choice(["count", "count", "sum", "min", "max"])
    agg = ("agg", "c", kind, "number", None if kind == "count" else z, body)
    p.clauses.append(("r", [x, y, c], outer + [agg]))
    return p


def main(pid, tier, seed, replay):
    import common as C
    return P.standard_check(pid, LEVEL, tier, seed, make_configs(C.SplitMix64(seed), 16 if tier == "quick" else 5), 48, 400, features, proof_pid="C06", rule=
        "generated programs x {each RAM transformer skipped singly, 3 random subsets} in the interpreter at -j4, one compiled run per few programs; "
        "plus a directed family of aggregates bounded by variables of different enclosing scans; non-trivial = distinct program with non-empty output",
        extra_programs=lambda r, t: [agg_bounds(r.fork("ab%d" % i)) for i in range(40 if t == "quick" else 400)],
        extra_tb=["hook H2 in ram/transform/Transformer.cpp (guarded) implements the skipping"])
