"""C30 -- The optimistic read-write lock protocol is safe.

proof:  Properties_C30.v (LockDefs/LockLemmas): for any number of clients and any interleaving of the atomic
        operations: at most one writer (version odd <-> exactly one write phase); a validation that succeeds
        was not overlapped by a completed write (fewer than 2^31 writes in between; the unbounded statement is
        refuted by wrap-around); abort restores the version outstanding leases hold; spinning only under a
        concurrent writer; + exhaustive exploration for 3 clients x 1 block and 2 clients x 2 blocks.
tie:    step-level correspondence: the REAL OptimisticReadWriteLock (hook H1: a scheduling point before every
        atomic operation) runs client scripts under the deterministic scheduler (cpp/vsched.h); the executed
        schedule is replayed in the extracted model; every method result, every lease value and the final
        version must agree, and the model's monitor must accept the run.
search: on disagreement the property monitor is evaluated on the implementation's own observations
        (python re-statement: two clients inside a write phase; a successful validation overlapped by a completed write).
"""
import os

import common as C

LEVEL = "proof"
BLOCKS = ["R", "W+", "W-", "T+", "T-", "U+", "U-"]


def gen_case(rng, max_threads, max_blocks):
    n = rng.range(2, max_threads)
    scripts = [[rng.choice(BLOCKS) for _ in range(rng.range(1, max_blocks))] for _ in range(n)]
    return n, scripts


def line_for(n, scripts, sched):
    return "%s | %s | %s" % (n, " | ".join(" ".join(s) for s in scripts), sched)


def parse_impl(line):
    parts = [x.strip() for x in line.split(";")]
    sched = parts[0].split()[1:]
    final = int(parts[1].split()[1])
    resp = parts[2].split() if len(parts) > 2 else []
    return sched, final, resp, (len(parts) > 3 and "STUCK" in parts[3])


def parse_model(line):
    parts = [x.strip() for x in line.split(";")]
    final = int(parts[0].split()[1])
    resp = parts[1].split() if len(parts) > 1 and parts[1] else []
    mon = parts[2].split()[1] if len(parts) > 2 else "?"
    return final, resp, mon


def impl_monitor(resp):
    """property predicate on the implementation's own observation sequence (global order):
    never two clients between a write acquisition and its release; a validation that returns true
    has seen no end_write of another client since the lease was taken."""
    writer = None
    lease_epoch = {}
    epoch = 0
    for r in resp:
        t, m, v = r.split(":")
        if m in ("sw",) or (m in ("tsw", "tup") and v == "t"):
            if writer is not None and writer != t:
                return "two writers: client %s acquired write permission while client %s holds it" % (t, writer)
            writer = t
        elif m in ("ew", "aw"):
            if m == "ew":
                epoch += 1
            writer = None
        elif m == "sr":
            lease_epoch[t] = epoch
        elif m in ("va", "er") and v == "t":
            if lease_epoch.get(t) != epoch:
                return "client %s validated although a write completed during its read phase" % t
        if m == "tup" and v == "t" and lease_epoch.get(t) != epoch:
            return "client %s upgraded a stale lease" % t
    return None


def main(pid, tier, seed, replay):
    chk = C.Check(pid, LEVEL, tier, seed)
    rng = chk.rng
    harness = C.compile_cpp(os.path.join(C.CPP, "lock_harness.cpp"), os.path.join(C.WORK, "bin", "lock_harness"))
    chk.proof_stage()
    model = C.ocaml_driver("lock")
    n_cases = 3000 if tier == "quick" else 60000
    cases = []
    for i in range(n_cases):
        r = rng.fork("case%d" % i)
        n, scripts = gen_case(r, 4 if i % 3 else 3, 3 if i % 2 else 4)
        if i % 4 == 0:
            # initial version next to the wrap-around of the 32-bit counter (reached after 2^30 completed writes) or negative
            n = "%d@%d" % (n, r.choice([2147483646, 2147483644, 2147483642, -2147483648, -2147483646, -2, -4]))
        cases.append((n, scripts, "random %d %d" % (r.next() % (1 << 31), r.choice([20, 50, 80]))))
    if tier == "thorough":
        # systematic part: every interleaving of 2 clients x 1 block (all 49 block pairs): all tid strings of length 10
        # (entries naming a finished client are skipped by the scheduler, so this covers every schedule, with repeats)
        for a in BLOCKS:
            for b in BLOCKS:
                for bits in range(1 << 10):
                    cases.append((2, [[a], [b]], " ".join(str((bits >> k) & 1) for k in range(10)) + " 0 1 0 1 0 1 0 1"))
    answers, crashed = C.run_resumable(harness, [line_for(*c) for c in cases], timeout=6000)
    if crashed is not None:
        chk.violation("lock harness died on case %d of %d" % (crashed, len(cases)), {"case": line_for(*cases[crashed])})
    kept, ilines, nstuck = [], [], 0
    for c, a in zip(cases, answers):
        if a is None:
            continue
        if a.startswith("STUCK-EXIT"):
            nstuck += 1
            if nstuck <= 5:
                chk.finding(None, "C30 fails on the real lock: a lock operation never completed under the schedule (%s)" % " ".join(a.split()[1:3]),
                            {"case": line_for(c[0], c[1], " ".join(a.split("sched", 1)[1].split())), "harness_answer": a[:600]})
            continue
        kept.append(c)
        ilines.append(a)
    cases = kept
    parsed = [parse_impl(l) for l in ilines]
    minput = "".join(line_for(c[0], c[1], " ".join(p[0])) + "\n" for c, p in zip(cases, parsed))
    rc, mout, err = C.sh([model], input=minput.encode(), timeout=1800)
    mlines = mout.splitlines()
    distinct, steps, spins, fails, aborts = set(), 0, 0, 0, 0
    for c, p, ml in zip(cases, parsed, mlines):
        sched, final, resp, stuck = p
        steps += len(sched)
        if ml.startswith("err"):
            chk.violation("model driver rejected the case", {"case": line_for(c[0], c[1], " ".join(sched))}, no_input=True)
            continue
        mfinal, mresp, mon = parse_model(ml)
        spins += len(sched) - len(resp)
        fails += sum(1 for r in resp if r.endswith(":f"))
        aborts += sum(1 for r in resp if ":aw:" in r)
        if any(r.endswith(":f") for r in resp) and len(set(sched)) > 1:
            distinct.add((c[0], tuple(map(tuple, c[1])), tuple(sched)))
        bad = impl_monitor(resp)
        rep = {"case": line_for(c[0], c[1], " ".join(sched)), "impl_final": final, "impl_responses": resp,
               "model_final": mfinal, "model_responses": mresp, "model_monitor": mon}
        if bad or stuck:
            chk.finding(None, "C30 fails on the real lock: " + (bad or "a lock operation never completed (livelock) under the schedule"), rep)
        elif final != mfinal or resp != mresp or mon != "ok":
            chk.violation("real lock and model disagree under the same schedule (monitor on the real observations holds)",
                          dict(rep, correspondence="LockDefs.run vs OptimisticReadWriteLock under cpp/vsched.h"), no_input=True)
        if len(chk.samples) < 4 and any(r.endswith(":f") for r in resp):
            chk.sample(rep)
    chk.cov.update({"evaluations": len(cases), "distinct_nontrivial": len(distinct),
                    "rule": "2-4 clients x 1-4 blocks of {R,W+,W-,T+,T-,U+,U-}, seeded random schedules with switch probability 20/50/80%; "
                            "non-trivial = distinct (scripts, schedule) in which at least two clients ran and some operation failed (validation/try/upgrade returned false)",
                    "traces_validated_against_impl": len(mlines), "atomic_steps": steps, "spin_or_internal_steps": spins,
                    "failed_operations": fails, "aborts": aborts})
    chk.assumptions = ["sequentially consistent interleaving of the atomic operations (memory orders / the acquire fence are not modelled)",
                       "callers of abort_write have not modified the protected data (protocol obligation on callers)"]
    return chk.finish(["Coq 8.16.1 kernel; Properties_C30.v closed under the global context (vm_compute used in the two bounded theorems)",
                       "extraction ExtrOcamlBasic; ocaml/lock_driver.ml", "cpp/vsched.h deterministic scheduler, cpp/lock_harness.cpp (reads version / lease through the object representation)",
                       "hook H1 in ParallelUtil.h (yield before each atomic op)", "modelled: OptimisticReadWriteLock only; Waiter back-off not modelled"])
