"""C03 -- Results do not depend on thread count or thread schedule.
proof:  Properties_C03.v -- every interleaving of the workers' inserts of a chunked parallel scan yields the
        sequential result when the scan body only reads relations it does not write (par_insert_confluent).
tie:    the same generated program under -j1,2,3,4,8,16 (interpreter), perturbed schedules (hook H6, env
        SOUFFLE_VERIF_PERTURB), and compiled executables at -j1/-j8; each equal to the oracle.
        transformed RAM at -j4: every PARALLEL mark sits on a scan whose body inserts into a relation it does not read."""
import os
import re

import common as C
import dl as D
import pipeline as P

LEVEL = "proof"


def features(r):
    return P.random_features(r, always=["recursion"] if r.chance(2, 3) else [])


def configs_q(p):
    cs = [P.Config("interpreter -j%d" % j, jobs=j) for j in (1, 2, 3, 4, 8, 16)]
    cs += [P.Config("interpreter -j4 perturb=%d" % s, jobs=4, env={"SOUFFLE_VERIF_PERTURB": str(s)}) for s in (1, 2, 3)]
    return cs


WRITE_RE = re.compile(r"INSERT \(.*\) INTO (\S+)")


def par_marks_ok(ram_text):
    """every PARALLEL scan/aggregate: the relations read inside it are disjoint from the relations it inserts into"""
    lines = ram_text.split("\n")
    bad, marks = [], 0
    for i, l in enumerate(lines):
        s = l.strip()
        if not s.startswith("PARALLEL "):
            continue
        marks += 1
        ind = len(l) - len(l.lstrip())
        reads, writes = set(), set()
        m = re.search(r" IN (\S+)|ON INDEX .* (\S+)$", s)
        j = i
        while j < len(lines) and (j == i or (len(lines[j]) - len(lines[j].lstrip()) > ind)):
            t = lines[j].strip()
            for mm in re.finditer(r"\bIN (@?[A-Za-z_][\w.@]*)", t):
                reads.add(mm.group(1))
            for mm in re.finditer(r"ISEMPTY\((@?[\w.@]+)\)", t):
                reads.add(mm.group(1))
            w = WRITE_RE.search(t)
            if w:
                writes.add(w.group(1))
            if re.search(r"INSERT \(.*\) INTO \S+ IF \(", t) or "GUARDED" in t or t.startswith("ERASE"):   # guarded insert prints as INSERT .. INTO r IF (..)
                bad.append("PARALLEL over a guarded insert / erase at line %d" % (i + 1))
            j += 1
        if reads & writes:
            bad.append("PARALLEL scan at line %d reads and writes %s" % (i + 1, sorted(reads & writes)))
    return marks, bad


def main(pid, tier, seed, replay):
    def post(chk, progs, oracle, stats):
        marks = 0
        for i, (p, o) in enumerate(zip(progs, oracle)):
            if o[0] != "ok":
                continue
            d = os.path.join(C.WORK, "cases", pid, str(i))
            rc, out, err = C.sh([C.souffle_bin(), "-w", os.path.join(d, "p.dl"), "--show=transformed-ram", "-j4"], timeout=60)
            if rc != 0:
                continue
            m, bad = par_marks_ok(out)
            marks += m
            for b in bad:
                chk.finding(None, "parallelised RAM query violates the read/write-disjointness the confluence theorem needs: " + b,
                            P.replay_obj(p, None, {"validator": "par_marks_ok", "ram": out[:4000]}))
        stats["parallel_marks_validated"] = marks
        # volume family: relations of 10^4..10^5 tuples (many B-tree splits, several chunks per worker), python-computed
        # expectation; every thread count and perturbation seed, one compiled executable at -j8
        import volume as V
        nvol = 5 if chk.tier == "quick" else 60
        vr = chk.rng.fork("volume")
        cases = [V.make_case(vr.fork("v%d" % i)) for i in range(nvol)]
        runs = []
        for i, c in enumerate(cases):
            for j in (1, 2, 4, 16):
                runs.append((i, "interpreter -j%d" % j, dict(jobs=j)))
            for s in (1, 2):
                runs.append((i, "interpreter -j8 perturb=%d" % s, dict(jobs=8, env={"SOUFFLE_VERIF_PERTURB": str(s)})))
            if i == 0:
                runs.append((i, "compiled -j8", dict(jobs=8, compiled=True)))

        def one(k):
            i, name, kw = runs[k]
            return V.run_case(cases[i], C.fresh_dir("c03vol", "%d_%d" % (i, k)), **kw)
        res = C.parallel_map(one, range(len(runs)), workers=4)
        for (i, name, kw), r in zip(runs, res):
            if r is not None:
                chk.finding(None, "volume program under '%s': %s" % (name, r), {"program": cases[i]["program"], "facts": {"e": cases[i]["facts"]["e"][:20000]}, "config": name})
        stats["volume_runs"] = len(runs)
        stats["volume_tuples"] = [c["tuples"] for c in cases]
    def configs(p):
        return configs_q(p)
    return P.standard_check(pid, LEVEL, tier, seed, configs, 24, 400, features,
        "generated programs x thread counts {1,2,3,4,8,16} x perturbation seeds; non-trivial = distinct program with non-empty output",
        post=post, extra_tb=["hook H6 perturbation only shakes the OS schedule; OpenMP scheduling itself is not enumerated",
                             "par_marks_ok (python, not proved) reads the PARALLEL marks off --show=transformed-ram"])
