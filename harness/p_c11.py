"""C11 -- Subsumption leaves exactly the non-dominated derivable tuples.

proof:  Properties_C11.v (ContractDefs/ContractLemmas): the executable checker `subsume_ok` accepts iff no final tuple is
        dominated by another final tuple (dominance = the subsumptive clause, evaluated by the proved `solve`), every final
        tuple is in the unsubsumed model, and (for monotone programs) every unsubsumed tuple is present or dominated by a
        present one; witnesses for every rejection; for a strict partial order on a finite list, deleting every element
        dominated by a different element leaves exactly the maximal elements (nonrec_delete_maximal) and the set of
        non-dominated elements is the ONLY dominance-free covering subset (minimal_unique) -- so the result is unique and
        must be the same in every mode and thread count.
tie:    verified validator on REAL outputs of four program families (recursive shortest paths with a cost bound, recursive
        hop counts, non-recursive best-per-key, non-recursive Pareto front) at -j1 / -j4 / -j16 / compiled; the unsubsumed
        model comes from the proved oracle run on the program without its subsumptive clause.
"""
import os

import common as C
import dl as D
import gen as G

LEVEL = "proof"
V = lambda n: ("var", n, "number")
N = lambda z: ("num", z, "number")


def family(rng):
    p = G.Prog()
    p.features = {"subsumption"}
    mk = lambda name, types, k: p.rels.append(G.Rel(len(p.rels), name, types, k)) or p.rels[-1]
    kind = rng.choice([0, 1, 2, 3, 4, 4, 5]) if rng.chance(9, 10) else 5
    e = mk("e", ["number", "number", "number"], "edb")
    d = mk("d", ["number", "number", "number"], "idb")
    d.output, d.layer, d.repr = True, 1, "btree_delete"
    nodes = rng.range(3, 6)
    p.facts["e"] = list({(rng.below(nodes), rng.below(nodes), rng.range(1, 9)) for _ in range(rng.range(3, 14))})
    x, y, z, c1, c2, a, b = V("x"), V("y"), V("z"), V("c1"), V("c2"), V("a"), V("b")
    if kind == 0:      # shortest paths, bounded
        bound = rng.range(12, 40)
        p.clauses.append(("d", [x, y, c1], [("pos", "e", [x, y, c1])]))
        s = ("op", "add", [c1, c2], "number")
        p.clauses.append(("d", [x, z, s], [("pos", "d", [x, y, c1]), ("pos", "e", [y, z, c2]), ("cmp", "lt", s, N(bound))]))
        dom_text = "d(x,y,c1) <= d(x,y,c2) :- c2 < c1."
        dom = ([x, y, c1], [x, y, c2], [("cmp", "lt", c2, c1)])
    elif kind == 1:    # hop counts
        bound = rng.range(3, 7)
        p.clauses.append(("d", [x, y, N(1)], [("pos", "e", [x, y, ("anon", "number")])]))
        s = ("op", "add", [c1, N(1)], "number")
        p.clauses.append(("d", [x, z, s], [("pos", "d", [x, y, c1]), ("pos", "e", [y, z, ("anon", "number")]), ("cmp", "lt", c1, N(bound))]))
        dom_text = "d(x,y,c1) <= d(x,y,c2) :- c2 < c1."
        dom = ([x, y, c1], [x, y, c2], [("cmp", "lt", c2, c1)])
    elif kind == 2:    # best (largest) value per key pair, non recursive
        p.clauses.append(("d", [x, y, c1], [("pos", "e", [x, y, c1])]))
        p.clauses.append(("d", [y, x, ("op", "add", [c1, N(1)], "number")], [("pos", "e", [x, y, c1]), ("cmp", "lt", x, y)]))
        dom_text = "d(x,y,c1) <= d(x,y,c2) :- c1 < c2."
        dom = ([x, y, c1], [x, y, c2], [("cmp", "lt", c1, c2)])
    elif kind == 3:    # Pareto front over (second, third) per first column
        p.clauses.append(("d", [x, y, c1], [("pos", "e", [x, y, c1])]))
        dom_text = "d(x,a,c1) <= d(x,b,c2) :- a <= b, c1 <= c2, a + c1 < b + c2."
        dom = ([x, a, c1], [x, b, c2], [("cmp", "le", a, b), ("cmp", "le", c1, c2),
                                         ("cmp", "lt", ("op", "add", [a, c1], "number"), ("op", "add", [b, c2], "number"))])
    elif kind == 4:    # shortest paths where the subsumptive relation is MUTUALLY recursive with a frontier relation whose
        #                name sorts before or after it (the stratum's relations are processed in name order)
        aux = mk(rng.choice(["a0", "f"]), ["number", "number"], "idb")
        aux.output, aux.layer = False, 1
        bound = rng.range(12, 40)
        p.clauses.append(("d", [x, y, c1], [("pos", "e", [x, y, c1])]))
        p.clauses.append((aux.name, [x, y], [("pos", "d", [x, y, ("anon", "number")])]))
        s = ("op", "add", [c1, c2], "number")
        p.clauses.append(("d", [x, z, s], [("pos", aux.name, [x, y]), ("pos", "d", [x, y, c1]), ("pos", "e", [y, z, c2]), ("cmp", "lt", s, N(bound))]))
        dom_text = "d(x,y,c1) <= d(x,y,c2) :- c2 < c1."
        dom = ([x, y, c1], [x, y, c2], [("cmp", "lt", c2, c1)])
    else:              # volume: best value per key over many keys x many observations -- long runs of neighbouring tuples are
        #                erased in one delete sequence from a tree of many leaves (merges and borrows in BTreeDelete)
        keys, obs = rng.range(40, 90), rng.range(12, 24)
        p.facts["e"] = list({(k, k % 3, (k * 7 + o * 13) % 101) for k in range(keys) for o in range(obs)})
        p.clauses.append(("d", [x, y, c1], [("pos", "e", [x, y, c1])]))
        dom_text = "d(x,y,c1) <= d(x,y,c2) :- c1 < c2." if rng.chance(1, 2) else "d(x,y,c1) <= d(x,y,c2) :- c2 < c1."
        dom = ([x, y, c1], [x, y, c2], [("cmp", "lt", c1, c2) if "c1 < c2" in dom_text else ("cmp", "lt", c2, c1)])
    return p, dom_text, dom, kind


def tuples_sx(rows):
    return " ".join("(" + " ".join("(n %s)" % v for v in r.split("\t")) + ")" for r in rows)


def main(pid, tier, seed, replay):
    chk = C.Check(pid, LEVEL, tier, seed)
    rng = chk.rng
    souffle = C.build_souffle()
    chk.proof_stage()
    checker = C.ocaml_driver("contract")
    nprog = 40 if tier == "quick" else 800
    fams = [family(rng.fork("f%d" % i)) for i in range(nprog)]
    unsub = D.oracle_batch([f[0] for f in fams], fuel=400)
    runs = []
    for i, (p, dom_text, dom, kind) in enumerate(fams):
        d = C.fresh_dir("c11", str(i))
        D.write_case(p, d, dl_text=p.render_dl(extra=[dom_text]))
        for j in (1, 4, 16):
            runs.append((i, d, j, False))
        if i % 8 == 0:
            runs.append((i, d, 2, True))

    def one(k):
        i, d, j, compiled = runs[k]
        p = fams[i][0]
        dl = "p.dl"
        if compiled:
            dl = "pc.dl"
            open(os.path.join(d, dl), "w").write(p.render_dl(extra=[fams[i][1]]))
        return D.run_souffle(p, d, args=(["-c"] if compiled else []), outsub="out_%d" % k, timeout=900, jobs=j, dl=dl)
    res = C.parallel_map(one, range(len(runs)))
    lines, meta = [], []
    per_prog = {}
    for (i, d, j, compiled), (rc, se, outs) in zip(runs, res):
        p, dom_text, dom, kind = fams[i]
        rep = {"program": p.render_dl(extra=[dom_text]), "facts": p.facts_text("e"), "jobs": j, "compiled": compiled}
        if unsub[i][0] != "ok":
            continue
        if rc != 0:
            chk.finding(None, "souffle failed (status %s) on a subsumption program: %s" % (rc, se[-200:]), rep)
            continue
        rows = outs["d"]
        per_prog.setdefault(i, set()).add(tuple(sorted(rows)))
        vars_ = {}
        pa = " ".join(p.term_sx(t, vars_) for t in dom[0])
        pb = " ".join(p.term_sx(t, vars_) for t in dom[1])
        body = " ".join(p.lit_sx(l, vars_) for l in dom[2])
        db = "(%d %s) (%d %s)" % (p.rel("e").id, " ".join("(" + " ".join("(n %d)" % v for v in t) + ")" for t in p.facts["e"]), p.rel("d").id, tuples_sx(rows))
        lines.append("(subsume (db %s) (rel %d) (unsub %s) (minimal 1) (doms (dom (%s) (%s) (%s))))" % (db, p.rel("d").id, tuples_sx(unsub[i][1]["d"]), pa, pb, body))
        meta.append((rep, rows, kind, len(unsub[i][1]["d"])))
    rc, out, err = C.sh([checker], input=("\n".join(lines) + "\n").encode(), timeout=1200)
    verdicts = out.splitlines()
    distinct = set()
    kinds = {}
    for (rep, rows, kind, nun), v in zip(meta, verdicts):
        v = v.strip()
        if v == "ok":
            kinds[kind] = kinds.get(kind, 0) + 1
            if len(rows) < nun:
                distinct.add((rep["program"], rep["facts"], rep["jobs"], rep["compiled"]))
            if len(chk.samples) < 3 and len(rows) < nun:
                chk.sample({"family": kind, "unsubsumed_tuples": nun, "final_tuples": len(rows), "rows": rows[:6]})
        elif v.startswith("nohyp") or v in ("stuck", "undef") or v.startswith("parse"):
            chk.violation("the contract checker could not judge a run (%s)" % v[:80], dict(rep, validator="ContractDefs.subsume_ok", rows=rows), no_input=True)
        else:
            chk.finding(None, "subsumption contract violated by souffle's result: %s" % v[:200], dict(rep, rows=rows))
    for i, s in per_prog.items():
        if len(s) > 1:
            p, dom_text, dom, kind = fams[i]
            chk.finding(None, "the subsumed relation differs between thread counts / back ends", {"program": p.render_dl(extra=[dom_text]), "facts": p.facts_text("e"), "results": [list(x)[:10] for x in s]})
    chk.cov.update({"evaluations": len(runs), "distinct_nontrivial": len(distinct),
                    "rule": "six families (bounded shortest paths, hop counts, best-per-key, Pareto front, shortest paths mutually recursive with a frontier relation, best-per-key over 40-90 keys x 12-24 observations) on random weighted graphs x {-j1, -j4, -j16, compiled}; "
                            "non-trivial = distinct accepted run in which subsumption actually removed tuples", "traces_validated_against_impl": len(verdicts), "accepted_by_family": kinds})
    chk.assumptions = ["dominance conditions are strict partial orders by construction of the families", "the unsubsumed model is finite thanks to the cost bounds"]
    return chk.finish(["Coq 8.16.1 kernel; Properties_C11.v closed under the global context", "extraction ExtrOcamlBasic; ocaml/contract_driver.ml and datalog_driver.ml (unsubsumed model)",
                       "harness/gen.py rendering", "modelled: the contract and the abstract deletion of dominated elements; the reject/delete RAM sequences and BTreeDelete are validated on results"])
