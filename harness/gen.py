"""Seeded generator of well-typed, grounded, stratifiable Datalog programs + facts.

One internal AST is rendered twice: Souffle text (.dl + .facts) and the S-expression read by the
extracted oracle (ocaml/datalog_driver.ml). The double rendering is trusted glue; it is exercised
on every differential run (any slip shows up as an oracle/Souffle mismatch on every backend).

Terms      ('var', name, ty) ('anon', ty) ('num', z, ty) ('str', bytes) ('nil', rty)
           ('op', name, [terms], ty) ('rec', rty, [terms]) ('adt', aty, branch, [terms])
Literals   ('pos', rel, [terms]) ('neg', rel, [terms]) ('cmp', op, a, b)
           ('agg', var, kind, ty, target|None, [simple literals]) ('range', var, ty, from, to, step|None)
Types      'number' 'unsigned' 'symbol' or a record / ADT type name.
"""
import common as C

B31, B32 = 2 ** 31, 2 ** 32
SENTINELS = [-B31, B31 - 1, -1, 0, 1, -B31 + 1, B31 - 2]


def signed(z):
    z &= 0xFFFFFFFF
    return z - B32 if z >= B31 else z


class Rel:
    def __init__(self, rid, name, types, kind):
        self.id, self.name, self.types, self.kind = rid, name, types, kind   # kind: edb | idb
        self.repr = ""            # "", btree, brie, eqrel, btree_delete
        self.output = False
        self.inline = False
        self.layer = 0
        self.quals = []


class Prog:
    def __init__(self):
        self.rels = []
        self.clauses = []         # (head_rel, [terms], [lits in oracle-evaluable order])
        self.facts = {}           # rel name -> list of tuples of python values
        self.records = {}         # name -> [field types]
        self.adts = {}            # name -> [(branch name, [types])] sorted by branch name (souffle's order)
        self.extra_decls = []     # raw text lines appended (directives: plan-free)
        self.features = set()
        self.clause_text_order = {}   # id(clause) -> permutation for the text rendering

    def rel(self, name):
        for r in self.rels:
            if r.name == name:
                return r
        raise KeyError(name)

    # ------------------------------------------------------------------ text rendering
    def ty_decl(self):
        out = []
        for n, fs in self.records.items():
            out.append(".type %s = [%s]" % (n, ", ".join("f%d:%s" % (i, t) for i, t in enumerate(fs))))
        for n, bs in self.adts.items():
            out.append(".type %s = %s" % (n, " | ".join("%s {%s}" % (b, ", ".join("g%d:%s" % (i, t) for i, t in enumerate(ts))) for b, ts in bs)))
        return out

    def sym_text(self, b):
        s = b.decode("latin-1")
        return '"' + s + '"'

    def term_text(self, t):
        k = t[0]
        if k == "var":
            return t[1]
        if k == "anon":
            return "_"
        if k == "num":
            z = t[1]
            if t[2] == "unsigned":
                return str(z & 0xFFFFFFFF) + "u"
            if z == -B31:
                return "(-2147483647 - 1)" if False else "-2147483648"
            return str(z)
        if k == "str":
            return self.sym_text(t[1])
        if k == "nil":
            return "nil"
        if k == "rec":
            return "[" + ", ".join(self.term_text(a) for a in t[2]) + "]"
        if k == "adt":
            return "$%s(%s)" % (t[2], ", ".join(self.term_text(a) for a in t[3]))
        if k == "op":
            name, args = t[1], [self.term_text(a) for a in t[2]]
            infix = {"add": "+", "sub": "-", "mul": "*", "div": "/", "mod": "%", "exp": "^", "band": "band", "bor": "bor",
                     "bxor": "bxor", "shl": "bshl", "shr": "bshr", "shru": "bshru", "land": "land", "lor": "lor", "lxor": "lxor"}
            if name in infix:
                return "(%s %s %s)" % (args[0], infix[name], args[1])
            pre = {"neg": "-", "bnot": "bnot ", "lnot": "lnot "}
            if name in pre:
                return "(%s%s)" % (pre[name], args[0])
            fn = {"max": "max", "min": "min", "cat": "cat", "strlen": "strlen", "substr": "substr", "tonum": "to_number",
                  "tostr": "to_string", "smax": "max", "smin": "min", "itou": "to_unsigned", "utoi": "to_number"}[name]
            return "%s(%s)" % (fn, ", ".join(args))
        raise ValueError(t)

    def lit_text(self, l):
        k = l[0]
        if k == "pos":
            return "%s(%s)" % (l[1], ", ".join(self.term_text(a) for a in l[2]))
        if k == "neg":
            return "!%s(%s)" % (l[1], ", ".join(self.term_text(a) for a in l[2]))
        if k == "cmp":
            op = l[1]
            if op in ("contains", "ncontains"):
                return "%scontains(%s, %s)" % ("!" if op == "ncontains" else "", self.term_text(l[2]), self.term_text(l[3]))
            sym = {"eq": "=", "ne": "!=", "lt": "<", "le": "<=", "gt": ">", "ge": ">="}[op]
            return "%s %s %s" % (self.term_text(l[2]), sym, self.term_text(l[3]))
        if k == "agg":
            _, var, kind, ty, target, body = l
            tgt = "" if kind == "count" else " " + self.term_text(target)
            return "%s = %s%s : { %s }" % (var, kind, tgt, ", ".join(self.lit_text(b) for b in body))
        if k == "range":
            _, var, ty, f, t, s = l
            args = [self.term_text(f), self.term_text(t)] + ([self.term_text(s)] if s is not None else [])
            return "%s = range(%s)" % (var, ", ".join(args))
        raise ValueError(l)

    def clause_text(self, c, body_order=None):
        head, args, body = c[0], c[1], c[2]
        h = "%s(%s)" % (head, ", ".join(self.term_text(a) for a in args))
        if not body:
            return h + "."
        lits = list(body)
        if body_order is not None:
            lits = [lits[i] for i in body_order]
        return h + " :- " + ", ".join(self.lit_text(l) for l in lits) + "."

    def render_dl(self, io=True, decl_quals=True, rng=None, extra=()):
        out = self.ty_decl()
        for r in self.rels:
            q = []
            if decl_quals:
                if r.repr:
                    q.append(r.repr)
                if r.inline:
                    q.append("inline")
                q += r.quals
            out.append(".decl %s(%s)%s" % (r.name, ", ".join("c%d:%s" % (i, t) for i, t in enumerate(r.types)), (" " + " ".join(q)) if q else ""))
            if io and r.kind == "edb":
                out.append(".input %s" % r.name)
            if io and r.output:
                out.append(".output %s" % r.name)
        for c in self.clauses:
            order = None
            if rng is not None and len(c[2]) > 1:
                order = rng.shuffle(list(range(len(c[2]))))
            out.append(self.clause_text(c, order))
        out += list(extra) + self.extra_decls
        return "\n".join(out) + "\n"

    def value_text(self, v, ty):
        if ty == "number":
            return str(v)
        if ty == "unsigned":
            return str(v & 0xFFFFFFFF)
        if ty == "symbol":
            return v.decode("latin-1")
        if ty in self.records:
            if v is None:
                return "nil"
            return "[" + ", ".join(self.value_text(x, t) for x, t in zip(v, self.records[ty])) + "]"
        if ty in self.adts:
            b, args = v
            ts = dict(self.adts[ty])[b]
            if not ts:
                return "$" + b
            return "$%s(%s)" % (b, ", ".join(self.value_text(x, t) for x, t in zip(args, ts)))
        raise ValueError(ty)

    def facts_text(self, name):
        r = self.rel(name)
        return "".join("\t".join(self.value_text(v, t) for v, t in zip(tup, r.types)) + "\n" for tup in self.facts.get(name, []))

    # ------------------------------------------------------------------ oracle rendering
    def value_sx(self, v, ty):
        if ty in ("number", "unsigned"):
            return "(n %d)" % signed(v)
        if ty == "symbol":
            return "(s %s)" % v.hex() if v else "(s)"
        if ty in self.records:
            if v is None:
                return "nil"
            return "(r %s)" % " ".join(self.value_sx(x, t) for x, t in zip(v, self.records[ty]))
        if ty in self.adts:
            b, args = v
            names = [bn for bn, _ in self.adts[ty]]
            ts = dict(self.adts[ty])[b]
            return "(a %d%s)" % (names.index(b), "".join(" " + self.value_sx(x, t) for x, t in zip(args, ts)))
        raise ValueError(ty)

    def term_sx(self, t, vars_):
        k = t[0]
        if k == "var":
            return "(v %d)" % vars_.setdefault(t[1], len(vars_))
        if k == "anon":
            return "_"
        if k == "num":
            return "(c (n %d))" % signed(t[1])
        if k == "str":
            return "(c %s)" % self.value_sx(t[1], "symbol")
        if k == "nil":
            return "(c nil)"
        if k == "rec":
            return "(rec %s)" % " ".join(self.term_sx(a, vars_) for a in t[2])
        if k == "adt":
            names = [bn for bn, _ in self.adts[t[1]]]
            return "(adt %d%s)" % (names.index(t[2]), "".join(" " + self.term_sx(a, vars_) for a in t[3]))
        if k == "op":
            name, ty = t[1], t[3]
            suffix = ".u" if ty == "unsigned" else ".s"
            typed = {"add", "sub", "mul", "div", "mod", "exp", "max", "min", "shr"}
            nm = {"itou": "id", "utoi": "id"}.get(name, name)
            if name == "shr":
                suffix = ".u" if t[2][0] is not None and term_type(t[2][0]) == "unsigned" else ".s"
            return "(op %s%s %s)" % (nm, suffix if name in typed else "", " ".join(self.term_sx(a, vars_) for a in t[2]))
        raise ValueError(t)

    def slit_sx(self, l, vars_):
        k = l[0]
        if k in ("pos", "neg"):
            return "(%s %d %s)" % (k, self.rel(l[1]).id, " ".join(self.term_sx(a, vars_) for a in l[2]))
        if k == "cmp":
            op = l[1]
            if op in ("lt", "le", "gt", "ge"):
                ty = term_type(l[2]) or term_type(l[3])
                op += {"unsigned": ".u", "symbol": ".y"}.get(ty, ".s")
            return "(cmp %s %s %s)" % (op, self.term_sx(l[2], vars_), self.term_sx(l[3], vars_))
        raise ValueError(l)

    def lit_sx(self, l, vars_):
        k = l[0]
        if k == "agg":
            _, var, kind, ty, target, body = l
            x = vars_.setdefault(var, len(vars_))
            tg = self.term_sx(target, vars_) if target is not None else "(c (n 0))"
            return "(agg %d %s %s %s (%s))" % (x, kind, "u" if ty == "unsigned" else "s", tg, " ".join(self.slit_sx(b, vars_) for b in body))
        if k == "range":
            _, var, ty, f, t, s = l
            x = vars_.setdefault(var, len(vars_))
            return "(range %d %s %s %s%s)" % (x, "u" if ty == "unsigned" else "s", self.term_sx(f, vars_), self.term_sx(t, vars_),
                                              (" " + self.term_sx(s, vars_)) if s is not None else "")
        return self.slit_sx(l, vars_)

    def clause_sx(self, c):
        vars_ = {}
        body = " ".join(self.lit_sx(l, vars_) for l in c[2])
        head = " ".join(self.term_sx(a, vars_) for a in c[1])
        return "(cl %d (%s) (%s))" % (self.rel(c[0]).id, head, body)

    def oracle_clauses(self):
        """clauses + the closure rules that give eqrel relations their meaning (property C08)"""
        cs = list(self.clauses)
        for r in self.rels:
            if r.repr == "eqrel":
                t = r.types[0]
                x, y, z = ("var", "x", t), ("var", "y", t), ("var", "z", t)
                cs.append((r.name, [x, x], [("pos", r.name, [x, ("anon", t)])]))
                cs.append((r.name, [x, x], [("pos", r.name, [("anon", t), x])]))
                cs.append((r.name, [x, y], [("pos", r.name, [y, x])]))
                cs.append((r.name, [x, z], [("pos", r.name, [x, y]), ("pos", r.name, [y, z])]))
        return cs

    def strata(self, clauses):
        """SCCs of the relation dependency graph in topological order (Tarjan)."""
        deps = {r.name: set() for r in self.rels}
        for h, _, body in clauses:
            for l in body:
                for rn in lit_rels(l):
                    deps[h].add(rn)
        index, low, on, stack, sccs, counter = {}, {}, set(), [], [], [0]

        def visit(v):
            work = [(v, iter(sorted(deps[v])))]
            index[v] = low[v] = counter[0]
            counter[0] += 1
            stack.append(v)
            on.add(v)
            while work:
                node, it = work[-1]
                adv = False
                for w in it:
                    if w not in index:
                        index[w] = low[w] = counter[0]
                        counter[0] += 1
                        stack.append(w)
                        on.add(w)
                        work.append((w, iter(sorted(deps[w]))))
                        adv = True
                        break
                    elif w in on:
                        low[node] = min(low[node], index[w])
                if adv:
                    continue
                work.pop()
                if work:
                    low[work[-1][0]] = min(low[work[-1][0]], low[node])
                if low[node] == index[node]:
                    comp = []
                    while True:
                        w = stack.pop()
                        on.discard(w)
                        comp.append(w)
                        if w == node:
                            break
                    sccs.append(comp)
        for r in self.rels:
            if r.name not in index:
                visit(r.name)
        return sccs   # Tarjan emits dependencies first

    def render_sexpr(self, fuel=200, outs=None):
        cs = self.oracle_clauses()
        strata = []
        for comp in self.strata(cs):
            here = [c for c in cs if c[0] in comp]
            if here:
                strata.append("(" + " ".join(self.clause_sx(c) for c in here) + ")")
        edb = []
        for r in self.rels:
            if r.name in self.facts and self.facts[r.name]:
                edb.append("(%d %s)" % (r.id, " ".join("(" + " ".join(self.value_sx(v, t) for v, t in zip(tup, r.types)) + ")" for tup in self.facts[r.name])))
        outs = outs if outs is not None else [r.name for r in self.rels if r.output]
        return "(prog %d (edb %s) (strata %s) (out %s))" % (fuel, " ".join(edb), " ".join(strata), " ".join(str(self.rel(o).id) for o in outs))

    # ------------------------------------------------------------------ parsing oracle output back into text rows
    def sx_value_text(self, sx, ty):
        """sx = parsed S-expression (nested lists / atoms) of a value -> souffle's text"""
        if ty in ("number", "unsigned"):
            z = int(sx[1])
            return str(z if ty == "number" else z & 0xFFFFFFFF)
        if ty == "symbol":
            return bytes.fromhex(sx[1]).decode("latin-1") if len(sx) > 1 else ""
        if ty in self.records:
            if sx == "nil":
                return "nil"
            return "[" + ", ".join(self.sx_value_text(x, t) for x, t in zip(sx[1:], self.records[ty])) + "]"
        if ty in self.adts:
            b, ts = self.adts[ty][int(sx[1])]
            if not ts:
                return "$" + b
            return "$%s(%s)" % (b, ", ".join(self.sx_value_text(x, t) for x, t in zip(sx[2:], ts)))
        raise ValueError(ty)


def parse_sx(s):
    toks = s.replace("(", " ( ").replace(")", " ) ").split()
    pos = [0]

    def rd():
        t = toks[pos[0]]
        pos[0] += 1
        if t == "(":
            l = []
            while toks[pos[0]] != ")":
                l.append(rd())
            pos[0] += 1
            return l
        return t
    out = []
    while pos[0] < len(toks):
        out.append(rd())
    return out


def lit_rels(l):
    k = l[0]
    if k in ("pos", "neg"):
        return [l[1]]
    if k == "agg":
        return [b[1] for b in l[5] if b[0] in ("pos", "neg")]
    return []


def term_type(t):
    k = t[0]
    if k == "var":
        return t[2]
    if k == "anon":
        return t[1]
    if k == "num":
        return t[2]
    if k == "str":
        return "symbol"
    if k == "nil":
        return t[1]
    if k == "rec":
        return t[1]
    if k == "adt":
        return t[1]
    if k == "op":
        return t[3]
    return None


# ---------------------------------------------------------------------- generation
class Gen:
    """feature names: neg, cmp, arith, bits, strings, records, adts, agg, range, recursion, mutual, unsigned,
    symbols, sentinels, eqrel, multi_rec_atoms, nullary"""

    ALL = ["neg", "cmp", "arith", "bits", "strings", "records", "adts", "agg", "range", "recursion", "mutual",
           "unsigned", "symbols", "multi_rec_atoms"]

    def __init__(self, rng, features=None, size=1.0):
        self.rng = rng
        self.f = set(features if features is not None else [x for x in self.ALL if rng.chance(1, 2)])
        self.size = size
        self.p = Prog()
        self.p.features = self.f
        self.nvar = 0

    def has(self, f):
        return f in self.f

    # ---- values
    def num_pool(self, ty):
        if self.has("sentinels") and self.rng.chance(1, 3):
            z = self.rng.choice(SENTINELS)
            return z
        return self.rng.range(0, 6) if ty == "unsigned" or self.rng.chance(3, 4) else self.rng.range(-4, 9)

    def sym_pool(self, nested=False):
        # inside a record / ADT the text formats cannot represent ',' '[' ']' '(' ')' (see C17: representable)
        pool = [b"a", b"b", b"ab", b"", b"x y", b"abc", b"12", b"-7", b"B", b"q1"]
        if not nested:
            pool += [b"a,b", b"[z]"]
        return self.rng.choice(pool)

    def value(self, ty, depth=0):
        if ty in ("number", "unsigned"):
            return self.num_pool(ty)
        if ty == "symbol":
            return self.sym_pool(nested=depth > 0)
        if ty in self.p.records:
            if depth > 1 or self.rng.chance(1, 5):
                return None
            return tuple(self.value(t, depth + 1) for t in self.p.records[ty])
        if ty in self.p.adts:
            bs = self.p.adts[ty]
            cand = [b for b in bs if depth < 2 or not any(t in self.p.adts or t in self.p.records for t in b[1])] or bs[:1]
            b, ts = self.rng.choice(cand)
            return (b, tuple(self.value(t, depth + 1) for t in ts))
        raise ValueError(ty)

    def const_term(self, ty):
        v = self.value(ty)
        return self.const_of(v, ty)

    def const_of(self, v, ty):
        if ty in ("number", "unsigned"):
            return ("num", v, ty)
        if ty == "symbol":
            return ("str", v)
        if ty in self.p.records:
            if v is None:
                return ("nil", ty)
            return ("rec", ty, [self.const_of(x, t) for x, t in zip(v, self.p.records[ty])])
        b, args = v
        ts = dict(self.p.adts[ty])[b]
        return ("adt", ty, b, [self.const_of(x, t) for x, t in zip(args, ts)])

    def fresh(self, ty):
        self.nvar += 1
        return ("var", "v%d" % self.nvar, ty)

    # ---- schema
    def base_types(self):
        ts = ["number", "number", "number"]
        if self.has("unsigned"):
            ts.append("unsigned")
        if self.has("symbols") or self.has("strings"):
            ts.append("symbol")
        return ts

    def schema(self):
        rng, p = self.rng, self.p
        if self.has("records"):
            p.records["P"] = ["number", rng.choice(self.base_types())]
            if rng.chance(1, 2):
                p.records["Q"] = ["P", "number"]
        if self.has("adts"):
            bs = [("Leaf", ["number"]), ("Pair", [rng.choice(self.base_types()), "number"]), ("Unit", [])]
            if self.has("records") and rng.chance(1, 2):
                bs.append(("Wrap", ["P"]))
            p.adts["T"] = sorted(bs)
        col_types = self.base_types() + list(p.records) + list(p.adts)
        n_edb = rng.range(2, 3)
        for i in range(n_edb):
            ar = rng.range(1, 3)
            types = [rng.choice(col_types if rng.chance(1, 3) else ["number"]) for _ in range(ar)]
            if i == 0:
                types = ["number", "number"]      # a graph, so recursion has something to chew on
            p.rels.append(Rel(len(p.rels), "e%d" % i, types, "edb"))
        n_layers = rng.range(1, 3)
        for layer in range(1, n_layers + 1):
            for j in range(rng.range(1, 2 + (1 if self.has("mutual") else 0))):
                ar = rng.range(1, 3)
                if self.has("nullary") and j > 0 and rng.chance(1, 2):
                    ar = 0          # a nullary relation next to another relation of its layer (so it can sit inside an SCC)
                types = [rng.choice(col_types if rng.chance(1, 3) else ["number"]) for _ in range(ar)]
                r = Rel(len(p.rels), "r%d_%d" % (layer, j), types, "idb")
                r.layer = layer
                r.output = not (self.has("hidden") and rng.chance(1, 2))
                p.rels.append(r)
        idb = [r for r in p.rels if r.kind == "idb"]
        if not any(r.output for r in idb):
            idb[-1].output = True

    def facts(self):
        rng, p = self.rng, self.p
        for r in p.rels:
            if r.kind != "edb":
                continue
            n = rng.range(0, int(8 * self.size) + 1) if rng.chance(9, 10) else 0
            seen, rows = set(), []
            for _ in range(n):
                tup = tuple(self.value(t) for t in r.types)
                if tup not in seen:
                    seen.add(tup)
                    rows.append(tup)
            p.facts[r.name] = rows

    # ---- clause bodies
    def pick_var(self, bound, ty):
        c = [v for v in bound if v[2] == ty]
        return self.rng.choice(c) if c else None

    def atom(self, rel, bound, bind_new=True):
        """positive atom over rel; returns (literal, newly bound vars)"""
        rng = self.rng
        args, new = [], []
        for t in rel.types:
            old = self.pick_var(bound + new, t)
            choice = rng.below(10)
            if old is not None and choice < 4:
                args.append(old)
            elif choice == 4 and t in ("number", "unsigned", "symbol"):
                args.append(self.const_term(t))
            elif choice == 5 and not bind_new:
                args.append(("anon", t))
            elif choice == 6 and t in self.p.records and self.has("records") and bind_new:
                fs = [self.fresh(ft) for ft in self.p.records[t]]
                new += fs
                args.append(("rec", t, fs))
            elif choice == 7 and t in self.p.adts and self.has("adts") and bind_new:
                b, ts = rng.choice(self.p.adts[t])
                fs = [self.fresh(ft) for ft in ts]
                new += fs
                args.append(("adt", t, b, fs))
            elif bind_new:
                v = self.fresh(t)
                new.append(v)
                args.append(v)
            else:
                args.append(old if old is not None else ("anon", t))
        return ("pos", rel.name, args), new

    def expr(self, bound, ty, depth=0):
        """an expression of type ty over bound variables (no value-creating growth control here)"""
        rng = self.rng
        v = self.pick_var(bound, ty)
        if depth >= 2 or rng.chance(1, 3):
            return v if (v is not None and rng.chance(3, 4)) else self.const_term(ty)
        if ty in ("number", "unsigned"):
            ops = []
            if self.has("arith"):
                ops += ["add", "sub", "mul", "max", "min", "div", "mod"]
            if self.has("bits"):
                ops += ["band", "bor", "bxor", "shl", "shr", "shru", "land", "lor", "lxor", "bnot", "lnot"]
            if self.has("strings") and ty == "number":
                ops += ["strlen"]
            if self.has("unsigned"):
                ops += ["conv"]
            if not ops:
                return v if v is not None else self.const_term(ty)
            op = rng.choice(ops)
            if op in ("bnot", "lnot"):
                return ("op", op, [self.expr(bound, ty, depth + 1)], ty)
            if op == "strlen":
                return ("op", "strlen", [self.expr(bound, "symbol", depth + 1)], "number")
            if op == "conv":
                other = "unsigned" if ty == "number" else "number"
                return ("op", "itou" if ty == "unsigned" else "utoi", [self.expr(bound, other, depth + 1)], ty)
            if op in ("div", "mod"):
                d = rng.choice([1, 2, 3, 5, 7]) if ty == "unsigned" or rng.chance(1, 2) else rng.choice([-3, -2, 2, 3])
                return ("op", op, [self.expr(bound, ty, depth + 1), ("num", d, ty)], ty)
            if op in ("shl", "shr", "shru"):
                return ("op", op, [self.expr(bound, ty, depth + 1), ("num", rng.choice([0, 1, 2, 5, 31, 33]), ty)], ty)
            if op in ("max", "min") and rng.chance(1, 3):
                return ("op", op, [self.expr(bound, ty, depth + 1) for _ in range(3)], ty)
            return ("op", op, [self.expr(bound, ty, depth + 1), self.expr(bound, ty, depth + 1)], ty)
        if ty == "symbol":
            if self.has("strings") and rng.chance(1, 2):
                op = rng.choice(["cat", "substr", "tostr", "smax"])
                if op == "cat":
                    return ("op", "cat", [self.expr(bound, "symbol", depth + 1), self.expr(bound, "symbol", depth + 1)], "symbol")
                if op == "substr":
                    return ("op", "substr", [self.expr(bound, "symbol", depth + 1), ("num", rng.range(0, 2), "number"), ("num", rng.range(0, 3), "number")], "symbol")
                if op == "tostr":
                    return ("op", "tostr", [self.expr(bound, "number", depth + 1)], "symbol")
                return ("op", rng.choice(["smax", "smin"]), [self.expr(bound, "symbol", depth + 1), self.expr(bound, "symbol", depth + 1)], "symbol")
            return v if v is not None else self.const_term("symbol")
        if ty in self.p.records:
            if v is not None and rng.chance(1, 2):
                return v
            if rng.chance(1, 5):
                return ("nil", ty)
            return ("rec", ty, [self.expr(bound, t, depth + 1) for t in self.p.records[ty]])
        if ty in self.p.adts:
            if v is not None and rng.chance(1, 2):
                return v
            cand = [b for b in self.p.adts[ty] if depth < 1 or not any(t in self.p.adts for t in b[1])]
            b, ts = rng.choice(cand)
            return ("adt", ty, b, [self.expr(bound, t, depth + 1) for t in ts])
        raise ValueError(ty)

    def extra_literal(self, bound, lower):
        """a constraint / negation / aggregate / range / equation over already bound variables"""
        rng = self.rng
        kinds = []
        if self.has("cmp"):
            kinds += ["cmp", "cmp"]
        if self.has("neg") and lower:
            kinds += ["neg", "neg"]
        if self.has("agg") and lower:
            kinds += ["agg", "agg"]
        if self.has("range"):
            kinds += ["range"]
        if self.has("arith") or self.has("bits") or self.has("strings"):
            kinds += ["eqn"]
        if not kinds:
            return None, []
        k = rng.choice(kinds)
        if k == "cmp":
            tys = sorted(set(v[2] for v in bound if v[2] in ("number", "unsigned", "symbol")))
            if not tys:
                return None, []
            ty = rng.choice(tys)
            a = self.pick_var(bound, ty)
            b = self.pick_var(bound, ty) if rng.chance(1, 2) else self.const_term(ty)
            op = rng.choice(["lt", "le", "gt", "ge", "ne", "eq"] if ty != "symbol" or self.has("strings") else ["ne", "eq"])
            if ty == "symbol" and self.has("strings") and rng.chance(1, 4):
                return ("cmp", rng.choice(["contains", "ncontains"]), self.const_term("symbol"), a), []
            return ("cmp", op, a, b), []
        if k == "neg":
            rel = rng.choice(lower)
            lit, _ = self.atom(rel, bound, bind_new=False)
            return ("neg", lit[1], lit[2]), []
        if k == "agg":
            rel = rng.choice(lower)
            kind = rng.choice(["count", "sum", "min", "max"])
            local = []
            args = []
            for t in rel.types:
                old = self.pick_var(bound, t)
                if old is not None and rng.chance(1, 2):
                    args.append(old)
                else:
                    v = self.fresh(t)
                    local.append(v)
                    args.append(v)
            body = [("pos", rel.name, args)]
            nums = [v for v in local if v[2] in ("number", "unsigned")]
            if kind != "count" and not nums:
                kind = "count"
            if nums and rng.chance(1, 3) and self.has("cmp"):
                cv = rng.choice(nums)
                # the aggregate's own variable against a constant or against a variable of the enclosing rule (an
                # upper / lower bound that depends on the outer scans: what the aggregate-hoisting analysis must respect)
                outer = self.pick_var(bound, cv[2])
                rhs = outer if outer is not None and rng.chance(1, 2) else self.const_term(cv[2])
                body.append(("cmp", rng.choice(["lt", "ge", "ne", "le", "gt"]), cv, rhs))
            if kind == "count":
                res = self.fresh("number")
                return ("agg", res[1], "count", "number", None, body), [res]
            tv = rng.choice(nums)
            res = self.fresh(tv[2])
            return ("agg", res[1], kind, tv[2], tv, body), [res]
        if k == "range":
            ty = "unsigned" if self.has("unsigned") and rng.chance(1, 4) else "number"
            res = self.fresh(ty)
            lo = self.pick_var(bound, ty) if rng.chance(1, 3) else None
            f = lo if lo is not None else ("num", rng.range(0, 3) if ty == "unsigned" else rng.range(-2, 3), ty)
            t = ("num", rng.range(0, 6) if ty == "unsigned" else rng.range(-3, 6), ty)
            if lo is not None:
                # keep a variable-started range finite and small: clamp through min/max
                f = ("op", "max", [("op", "min", [lo, ("num", 5, ty)], ty), ("num", 0 if ty == "unsigned" else -3, ty)], ty)
            step = None
            if rng.chance(1, 3):
                step = ("num", rng.choice([1, 2, 3] if ty == "unsigned" else [1, 2, -1, -2, 0]), ty)
            return ("range", res[1], ty, f, t, step), [res]
        # equation binding a new variable to an expression
        tys = ["number"] + (["unsigned"] if self.has("unsigned") else []) + (["symbol"] if self.has("strings") else [])
        ty = rng.choice(tys)
        res = self.fresh(ty)
        return ("cmp", "eq", res, self.expr(bound, ty)), [res]

    def clause_for(self, rel, recursive):
        rng, p = self.rng, self.p
        lower = [r for r in p.rels if r.layer < rel.layer]
        same = [r for r in p.rels if r.layer == rel.layer and r.kind == "idb"]
        body, bound = [], []
        n_atoms = rng.range(1, 3)
        rec_atoms = 0
        for i in range(n_atoms):
            if recursive and (i == 0 or (self.has("multi_rec_atoms") and rng.chance(1, 2))):
                src = rng.choice(same) if self.has("mutual") else rel
                rec_atoms += 1
            else:
                src = rng.choice(lower)
            lit, new = self.atom(src, bound)
            body.append(lit)
            if self.has("cmp") and i > 0 and rng.chance(1, 2):
                # range join: inequalities between the columns this atom binds and variables of the atoms before it --
                # one-sided and two-sided, weak and strict, on one or two columns (what MakeIndex turns into index bounds)
                for nv in [v for v in new if v[2] in ("number", "unsigned")][:2]:
                    for _ in range(rng.range(1, 2)):
                        ov = self.pick_var(bound, nv[2])
                        if ov is not None:
                            a, b = (nv, ov) if rng.chance(1, 2) else (ov, nv)
                            body.append(("cmp", rng.choice(["lt", "le", "gt", "ge", "ge", "le"]), a, b))
            bound += new
        for _ in range(rng.range(0, 2)):
            lit, new = self.extra_literal(bound, lower)
            if lit is not None:
                body.append(lit)
                bound += new
        head = []
        for t in rel.types:
            v = self.pick_var(bound, t)
            if recursive:
                head.append(v if v is not None else self.const_term(t))     # no value-creating heads in recursion
            elif v is not None and rng.chance(2, 3):
                head.append(v)
            else:
                head.append(self.expr(bound, t))
        return (rel.name, head, body)

    def rules(self):
        rng, p = self.rng, self.p
        for rel in p.rels:
            if rel.kind != "idb":
                continue
            n = rng.range(1, 3)
            for i in range(n):
                p.clauses.append(self.clause_for(rel, recursive=False))
            if self.has("recursion") and rng.chance(2, 3):
                for i in range(rng.range(1, 2)):
                    p.clauses.append(self.clause_for(rel, recursive=True))
            if rng.chance(1, 6):
                p.clauses.append((rel.name, [self.const_term(t) for t in rel.types], []))

    def program(self):
        self.schema()
        self.facts()
        self.rules()
        return self.p


def gen_program(rng, features=None, size=1.0):
    return Gen(rng, features, size).program()
