"""C14 -- Arbitrary program text never crashes the compiler.   LEVEL: exploration (fuzzing, stated as such).

A Gallina model is total by construction, so "never crashes" is vacuous in any model, and memory safety / assertion
freedom of the C++ front end are runtime facts no executable model expresses: no theorem stands behind this check.
What it does: feature-rich valid programs (the shared generator + a hand-written seed file covering directives, components,
functors, types, plans, pragmas) are mutated at token level (insertion, deletion, substitution, duplication, swapping,
truncation, splicing of two programs) and at byte level; souffle must end with status 0 or 1 within the time limit.
Anything else (signal, assertion abort, internal-error abort, other status, hang) is reported with the input as replay.
Crashing inputs are minimised by token-level delta debugging.
"""
import os
import re
import shutil

import common as C
import pipeline as P

LEVEL = "exploration"

SEED_PROGRAM = r'''
.pragma "suppress-warnings" "*"
.type N <: number
.type S <: symbol
.type U = N | number
.type P = [a:number, b:symbol]
.type T = Leaf {x:number} | Node {l:T, r:T} | Nil {}
.functor f(x:number):number
.decl e(x:number, y:number) btree
.decl s(a:symbol, b:unsigned, c:float) brie
.decl q(x:number, y:number) eqrel
.decl r(p:P, t:T) inline
.decl c(x:number, y:number) choice-domain x
.decl m(x:number, y:number) btree_delete
.decl o(x:number) magic
.input e(IO=file, filename="e.facts", delimiter=",")
.output o(IO=stdout)
.printsize e
.limitsize q(n=5)
e(1,2). e(2,3). s("a", 1u, 1.5). s("b\"c", 0xffu, -2.0).
q(x,y) :- e(x,y).
r([x, "k"], $Node($Leaf(x), $Nil())) :- e(x,_).
c(x,y) :- e(x,y).
m(x,y) :- e(x,y).
m(x,y) <= m(x,z) :- y > z.
o(x) :- e(x,y), !e(y,x), x != y, x < 10, y >= 0 ; e(y,x), x = y + 1.
o(z) :- z = count : { e(_,_) }, z = sum a : { e(a,_) }, z != min b : { e(b,_) }.
o(x) :- x = range(1, 5, 2), x band 1 = 1, x = strlen(cat("a", to_string(x))).
o(x) :- e(x,_), r(p,_), p = [x,_].
o(autoinc()) :- e(_,_).
o(as(x, number)) :- s(_, x, _).
o(x), o(y) :- e(x,y).
.plan 0:(1)
.comp C<K> { .decl d(x:K) d(1). .comp I { .decl i(x:number) i(2). } .init ii = I }
.comp D : C<number> { .override d d(3). }
.init cc = D
.decl w(x:number) w(x) :- cc.d(x).
#define M(a) a
o(M(3)).
'''

TOKEN_RE = re.compile(r'"(?:[^"\\]|\\.)*"|[A-Za-z_][A-Za-z_0-9]*|\d+(?:\.\d+)?u?|0x[0-9a-fA-F]+|:-|<=|>=|!=|\.[a-z_]+|\S', re.S)
POOL = [".decl", ".type", ".input", ".output", ".comp", ".init", ".plan", ".limitsize", ".functor", ".pragma", ".override", ".printsize", ":-", "<=", "!", ",", ";", ".", "(", ")",
        "[", "]", "{", "}", "$", "_", "=", "<", "count", "sum", "min", "max", "mean", "range", "nil", "autoinc", "as", "number", "symbol", "unsigned", "float", "btree", "brie",
        "eqrel", "inline", "magic", "choice-domain", "<:", "|", ":", "0", "-1", "4294967296", "2147483648", "1.5", "0x", '"', '"a"', "\\", "@", "#", "%", "^", "*", "/", "+", "-",
        "bshl", "land", "to_string", "ord", "match", "contains", "true", "false", "n", "x", "e", "o", "IO", "filename", "stdout"]


def mutate(rng, toks, other):
    t = list(toks)
    for _ in range(rng.range(1, 3)):
        if not t:
            break
        k = rng.below(9)
        i = rng.below(len(t))
        if k == 0:
            del t[i]
        elif k == 1:
            t.insert(i, rng.choice(POOL))
        elif k == 2:
            t[i] = rng.choice(POOL)
        elif k == 3:
            t.insert(i, t[rng.below(len(t))])
        elif k == 4:
            j = rng.below(len(t))
            t[i], t[j] = t[j], t[i]
        elif k == 5:
            t = t[: max(1, i)]
        elif k == 6 and other:
            j = rng.below(len(other))
            t = t[:i] + other[j: j + rng.range(1, 12)] + t[i:]
        elif k == 7:
            del t[i: i + rng.range(1, 6)]
        else:
            t[i] = t[i] * rng.range(2, 3)
    return t


def render(toks):
    out, line = [], ""
    for tok in toks:
        line += tok + " "
        if tok in (".", "}") or len(line) > 100:
            out.append(line)
            line = ""
    out.append(line)
    return "\n".join(out) + "\n"


def outcome(souffle, text, d, name, timeout=20):
    path = os.path.join(d, name)
    with open(path, "wb") as fh:
        fh.write(text if isinstance(text, bytes) else text.encode("latin-1", "replace"))
    rc, so, se = C.sh([souffle, "-w", path, "-D", os.path.join(d, "out"), "-F", d], timeout=timeout, cwd=d)
    return rc, se


def bad(rc):
    return rc not in (0, 1)


def main(pid, tier, seed, replay):
    chk = C.Check(pid, LEVEL, tier, seed)
    rng = chk.rng
    souffle = C.build_souffle()
    n = 1500 if tier == "quick" else 40000
    progs = P.gen_programs(rng.fork("valid"), 12, lambda r: P.random_features(r, always=["records", "adts", "agg", "neg"]))
    seeds = [TOKEN_RE.findall(SEED_PROGRAM)] + [TOKEN_RE.findall(p.render_dl()) for p in progs]
    base = C.fresh_dir("c14")
    os.makedirs(os.path.join(base, "out"))
    with open(os.path.join(base, "e.facts"), "w") as fh:
        fh.write("1,2\n")
    cases = []
    for i in range(n):
        r = rng.fork("m%d" % i)
        src = r.choice(seeds)
        if i % 25 == 24:
            raw = bytearray(render(src).encode("latin-1", "replace"))
            for _ in range(r.range(1, 8)):
                raw[r.below(len(raw))] = r.below(256)
            cases.append(bytes(raw))
        else:
            cases.append(render(mutate(r, src, r.choice(seeds))))

    def one(i):
        d = os.path.join(base, "w%d" % (i % 64))
        os.makedirs(os.path.join(d, "out"), exist_ok=True)
        if not os.path.exists(os.path.join(d, "e.facts")):
            shutil.copy(os.path.join(base, "e.facts"), d)
        return outcome(souffle, cases[i], d, "m%d.dl" % i)
    res = C.parallel_map(one, range(len(cases)), workers=16)
    hist = {"accepted": 0, "rejected": 0, "abnormal": 0}
    sigs = {}
    for i, (rc, se) in enumerate(res):
        if rc == 0:
            hist["accepted"] += 1
        elif rc == 1:
            hist["rejected"] += 1
        else:
            hist["abnormal"] += 1
            m = re.search(r"Assertion `([^']*)'|fatal error|Segmentation|terminate called.*?\n.*", se)
            sig = ("rc=%s " % rc) + (m.group(0)[:120] if m else se.strip().splitlines()[-1][:120] if se.strip() else "no message")
            sigs.setdefault(sig, []).append(i)
    for sig, idx in sorted(sigs.items()):
        i = idx[0]
        text = cases[i]
        # minimise at token level (text inputs only)
        if isinstance(text, str):
            toks = TOKEN_RE.findall(text)
            d = os.path.join(base, "shrink")
            os.makedirs(os.path.join(d, "out"), exist_ok=True)
            shutil.copy(os.path.join(base, "e.facts"), d)
            changed, steps = True, 0
            while changed and steps < 200:
                changed = False
                chunk = max(1, len(toks) // 8)
                while chunk >= 1 and steps < 200:
                    j = 0
                    while j < len(toks) and steps < 200:
                        cand = toks[:j] + toks[j + chunk:]
                        steps += 1
                        rc2, se2 = outcome(souffle, render(cand), d, "s.dl")
                        if bad(rc2) and (sig.split(" ", 1)[1][:40] in se2 or rc2 == res[i][0]):
                            toks, changed = cand, True
                        else:
                            j += chunk
                    chunk //= 2
            text = render(toks)
        key = None
        for f in chk.known:
            if f["key"].startswith("C14-") and f.get("signature", "") and f["signature"] in sig:
                key = f["key"]
        chk.finding(key, "souffle did not end with status 0/1: %s (%d mutants with this signature)" % (sig, len(idx)),
                    {"input": text if isinstance(text, str) else text.decode("latin-1"), "signature": sig, "mutants_with_signature": len(idx)})
    chk.cov.update({"evaluations": len(cases), "distinct_nontrivial": len(set(cases)),
                    "rule": "token-level mutations (insert / delete / substitute / duplicate / swap / truncate / splice / cut / repeat) and byte noise over 13 valid seed programs; "
                            "non-trivial = distinct mutant text", "outcomes": hist, "abnormal_signatures": {k: len(v) for k, v in sigs.items()},
                    "samples": [cases[3][:300] if isinstance(cases[3], str) else "", cases[7][:300] if isinstance(cases[7], str) else ""]})
    chk.assumptions = ["no theorem: crash freedom of the C++ front end is not expressible in an executable model; this is fuzzing"]
    return chk.finish(["fuzzing harness only (harness/p_c14.py); 20 s time limit per input; status 0/1 = normal outcome"],
                      explanation="exploration by mutation fuzzing; see module docstring")
