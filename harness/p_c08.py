"""C08 -- Relation representation is transparent; eqrel holds the closure.
tie: every generated program is run with random btree / brie / default qualifiers per relation (interpreter and compiled);
     relations declared eqrel get their meaning from explicit closure rules in the oracle (reflexive on mentioned elements,
     symmetric, transitive), and are read, filtered, joined and looked up with either column bound, with sentinel values
     (type min / max) in the data. All outputs must equal the proved reference."""
import copy

import common as C
import pipeline as P

LEVEL = "translation_validation"


def features(r):
    return P.random_features(r, always=["sentinels", "neg"])


def add_eqrel(p, rng):
    """turn one binary (number, number) IDB relation into an eqrel relation (its rules stay; closure is implied)"""
    cand = [r for r in p.rels if r.kind == "idb" and r.types == ["number", "number"]]
    if not cand or not rng.chance(2, 3):
        return p
    r = rng.choice(cand)
    r.repr = "eqrel"
    p.features.add("eqrel")
    return p


def variant(assign):
    def t(p):
        q = copy.deepcopy(p)
        for r in q.rels:
            if r.repr != "eqrel" and r.name in assign:
                r.repr = assign[r.name]
        return q.render_dl()
    return t


def make_configs(rng, compiled_every):
    count = [0]

    def configs(p):
        r = rng.fork(P.prog_hash(p))
        if "directed" in p.features:
            count[0] += 1
            cs = [P.Config("directed interpreter", transform=variant({}))]
            if "brie" in p.features or count[0] % 3 == 0:
                cs.append(P.Config("directed compiled", transform=variant({}), compiled=True, jobs=2))
            return cs
        cs = [P.Config("as declared", transform=variant({}))]
        for k in range(4):
            assign = {x.name: r.choice(["", "btree", "brie"]) for x in p.rels if x.types}
            cs.append(P.Config("repr #%d %s" % (k, ",".join("%s=%s" % (n, v) for n, v in sorted(assign.items()) if v)), transform=variant(assign)))
        count[0] += 1
        if compiled_every and count[0] % compiled_every == 0:
            assign = {x.name: r.choice(["", "btree", "brie"]) for x in p.rels if x.types}
            cs.append(P.Config("compiled repr %s" % ",".join("%s=%s" % (n, v) for n, v in sorted(assign.items()) if v), transform=variant(assign), compiled=True, jobs=2))
        return cs
    return configs


def directed(rng, kind):
    """small directed programs aimed at the lookup paths: an eqrel / brie relation is read, filtered, joined and looked
    up with either column bound, with values from the sentinel pool"""
    import gen as G
    p = G.Prog()
    p.features = {"directed", kind}
    pool = [-2 ** 31, 2 ** 31 - 1, -1, 0, 1, 5, 7, 8, -7, 2 ** 31 - 2, -2 ** 31 + 1]
    mk = lambda name, types, k: p.rels.append(G.Rel(len(p.rels), name, types, k)) or p.rels[-1]
    base = mk("base", ["number", "number"], "edb")
    probe = mk("probe", ["number"], "edb")
    s = mk("s", ["number", "number"], "idb")
    s.repr = "eqrel" if kind == "eqrel" else "brie"
    outs = [mk(n, t, "idb") for n, t in (("all", ["number", "number"]), ("fst", ["number", "number"]), ("snd", ["number", "number"]),
                                         ("both", ["number"]), ("neg", ["number", "number"]), ("cst", ["number"]), ("hit", ["number", "number"]),
                                         ("miss", ["number", "number"]))]
    for o in outs:
        o.output = True
        o.layer = 2
    s.layer = 1
    V = lambda n: ("var", n, "number")
    p.clauses.append(("s", [V("x"), V("y")], [("pos", "base", [V("x"), V("y")])]))
    # a second rule keeps `s` from being a mere copy of `base` (RemoveRelationCopies would drop the brie/eqrel relation)
    p.clauses.append(("s", [V("x"), V("x")], [("pos", "probe", [V("x")]), ("cmp", "gt", V("x"), ("num", 6, "number"))]))
    p.clauses.append(("all", [V("x"), V("y")], [("pos", "s", [V("x"), V("y")])]))
    p.clauses.append(("fst", [V("x"), V("y")], [("pos", "probe", [V("x")]), ("pos", "s", [V("x"), V("y")])]))
    p.clauses.append(("snd", [V("x"), V("y")], [("pos", "probe", [V("y")]), ("pos", "s", [V("x"), V("y")])]))
    p.clauses.append(("both", [V("x")], [("pos", "probe", [V("x")]), ("pos", "probe", [V("y")]), ("pos", "s", [V("x"), V("y")])]))
    p.clauses.append(("neg", [V("x"), V("y")], [("pos", "probe", [V("x")]), ("pos", "probe", [V("y")]), ("neg", "s", [V("x"), V("y")])]))
    # membership tests for exactly the stored pairs (and their absence for a negated test)
    p.clauses.append(("hit", [V("x"), V("y")], [("pos", "base", [V("x"), V("y")]), ("pos", "s", [V("x"), V("y")])]))
    p.clauses.append(("miss", [V("x"), V("y")], [("pos", "base", [V("x"), V("y")]), ("neg", "s", [V("x"), V("y")])]))
    c = rng.choice(pool)
    p.clauses.append(("cst", [V("y")], [("pos", "s", [("num", c, "number"), V("y")])]))
    n = rng.range(2, 5)
    p.facts["base"] = list({(rng.choice(pool), rng.choice(pool)) for _ in range(n)})
    p.facts["probe"] = [(v,) for v in set(rng.choice(pool) for _ in range(4)) | {p.facts["base"][0][0]}]
    return p


def key_for(p, cfg, bad):
    """the two recorded findings, keyed by their input class"""
    if "directed" not in p.features:
        return None
    vals = [v for row in p.facts.get("base", []) for v in row]
    consts = [t[1] for c in p.clauses for l in c[2] if l[0] in ("pos", "neg") for t in l[2] if t[0] == "num"]
    if "eqrel" in p.features and not cfg.compiled and (-2 ** 31 in vals or -2 ** 31 in consts or any(v == (-2 ** 31,) for v in p.facts.get("probe", []))):
        return "C08-interpreter-eqrel-lookup-bound-to-INT_MIN"
    if "brie" in p.features and any(v < 0 for v in vals) and any(v >= 0 for v in vals):
        return "C08-brie-mixed-sign-keys"
    return None


def main(pid, tier, seed, replay):
    rng = C.SplitMix64(seed)
    return P.standard_check(pid, LEVEL, tier, seed, make_configs(rng, 6 if tier == "quick" else 4), 24, 400, features, proof_pid="C08",
        rule="generated programs (sentinel values -2^31 / 2^31-1 in the data, negation, optional eqrel relation) x {declared, 4 random btree/brie/default assignments, "
        "one compiled assignment per few programs}; non-trivial = distinct program with non-empty output",
        mutate=lambda p, r: add_eqrel(p, r), key_for=key_for,
        post=__import__("volume").post_step("c08vol", 4, 40, [("interpreter -j4", dict(jobs=4), False), ("compiled -j4", dict(jobs=4, compiled=True), True)]),
        extra_programs=lambda r, tier: [directed(r.fork("d%d" % i), "eqrel" if i % 2 else "brie") for i in range(24 if tier == "quick" else 400)])
