#!/usr/bin/env python3
"""Stores a confirmed seeded change under /verif/seeded/<name>/ (patch.diff, demo/, meta.json).
usage: seed_store.py <name> <property> <patch> <demo dir> <needs> <confirm summary line> <agent test summary> [also_check,...]"""
import json, os, shutil, sys
V = os.path.dirname(os.path.dirname(os.path.abspath(__file__)))
name, prop, patch, demo, needs, confirm, agent_tests = sys.argv[1:8]
also = sys.argv[8].split(",") if len(sys.argv) > 8 and sys.argv[8] else []
d = os.path.join(V, "seeded", name)
shutil.rmtree(d, ignore_errors=True)
os.makedirs(d)
shutil.copy(patch, os.path.join(d, "patch.diff"))
shutil.copytree(demo, os.path.join(d, "demo"), ignore=shutil.ignore_patterns("*.o", "a.out", "work", "tmp", "*.log"))
meta = {"property": prop, "also_check": also, "needs_to_manifest": needs,
        "confirmed_by_main_session": confirm,
        "tests_run_by_seeding_agent": agent_tests,
        "origin": "produced by a sub-agent that was given only the property text and a scratch worktree; never committed in /repo"}
json.dump(meta, open(os.path.join(d, "meta.json"), "w"), indent=1)
print("stored", d)
