"""C07 -- Query plans and profile-guided scheduling preserve results.

proof:  Properties_C07.v -- if two rule descriptions differ by a permutation of their body atoms, the immediate-consequence
        operator, every naive iterate and the least fixpoint coincide (fire_perm_invariant).
tie:    generated programs get random valid `.plan` directives (a permutation of the body atoms for every version of a
        clause, recursive and non-recursive) and a profile-guided run (--auto-schedule from a profile of the same
        program); all outputs equal the proved oracle.
"""
import copy
import os

import common as C
import gen as G
import pipeline as P

LEVEL = "proof"


def features(r):
    return P.random_features(r, always=["recursion", "multi_rec_atoms"])


def plan_text(p, rng):
    """program text with a random .plan after every clause that has >= 2 positive atoms"""
    sccs = p.strata(p.clauses)
    comp_of = {}
    for comp in sccs:
        for n in comp:
            comp_of[n] = frozenset(comp)
    lines, nplans = [], 0
    base = p.render_dl().split("\n")
    n_clauses = len(p.clauses)
    head_lines = base[: len(base) - n_clauses - 1]
    out = list(head_lines)
    for c in p.clauses:
        out.append(p.clause_text(c))
        atoms = [l for l in c[2] if l[0] == "pos"]
        if len(atoms) < 2:
            continue
        rec = [l for l in atoms if l[1] in comp_of[c[0]] and (len(comp_of[c[0]]) > 1 or l[1] == c[0])]
        # a relation that is its own SCC is recursive only if it occurs in its own body;
        # souffle rejects a plan on a non-recursive clause ("Ignored execution plan for non-recursive clause")
        if not rec:
            continue
        nvers = len(rec)
        plans = []
        for v in range(nvers):
            if rng.chance(2, 3):
                perm = rng.shuffle(list(range(1, len(atoms) + 1)))
                plans.append("%d:(%s)" % (v, ",".join(map(str, perm))))
        if plans:
            out.append(".plan " + ", ".join(plans))
            nplans += 1
    return "\n".join(out) + "\n", nplans


def make_configs(rng, stats):
    def configs(p):
        r = rng.fork(P.prog_hash(p))
        cs = [P.Config("default order")]
        for k in range(3):
            txt, n = plan_text(p, r.fork("plan%d" % k))
            if n:
                stats["plans"] = stats.get("plans", 0) + n
                cs.append(P.Config("plans #%d" % k, transform=(lambda q, txt=txt: txt)))
        auto = P.Config("auto-schedule")

        def pre(q, d, dlname):
            prof = os.path.join(d, "prof.json")
            po = os.path.join(d, "out_profile")
            os.makedirs(po, exist_ok=True)
            rc, so, se = C.sh([C.souffle_bin(), "-w", os.path.join(d, dlname), "-F", os.path.join(d, "facts"), "-D", po, "-p", prof, "--emit-statistics", "-j1"], timeout=120, cwd=d)
            if rc != 0 or not os.path.exists(prof):
                return None
            return ["--auto-schedule=" + prof]
        auto.pre = pre
        cs.append(auto)
        return cs
    return configs


def key_for(p, cfg, bad):
    """the recorded finding: --auto-schedule aborts in profile::Reader::getIterations (assert(false)) when the profile holds no
    recursive join-size statistics for a recursive relation -- the relation's recursive clauses have a single atom of the
    stratum and no join (e.g. r(c) :- r(x), y = x bshr 31, c = count : { e(y, y) }.)"""
    if cfg.name == "auto-schedule" and isinstance(bad, dict) and bad.get("failed") == -6 and "Reader::getIterations" in bad.get("stderr", ""):
        return "C07-auto-schedule-abort-no-recursive-join-size-statistics"
    return None


def main(pid, tier, seed, replay):
    stats = {}
    return P.standard_check(pid, LEVEL, tier, seed, make_configs(C.SplitMix64(seed), stats), 30, 500, features, key_for=key_for, rule=
        "generated recursive programs x {default order, 3 random .plan assignments (random permutation per clause version), profile-guided auto-schedule}; "
        "non-trivial = distinct program with non-empty output",
        post=lambda chk, progs, oracle, st: st.update(stats))
