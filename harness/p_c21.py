"""C21 -- The C++ embedding API is consistent with file-based runs.
tie: each generated program is compiled as a library (`souffle -g`) and linked with a generic driver (cpp/api_driver.cpp)
     that executes call sequences through SouffleProgram / Relation: inserting the input tuples through the API and running
     must give the proved reference's output relations; size() must equal the number of iterated tuples; contains() must
     agree with iteration (present and absent tuples); running again must change nothing; purging everything, re-inserting
     and re-running must reproduce the results; loadAll + run + printAll must write the same files."""
import os

import common as C
import dl as D
import pipeline as P

LEVEL = "translation_validation"


def features(r):
    return P.random_features(r, never=["records", "adts", "hidden"])


def api_value(v, ty):
    if ty == "symbol":
        return "x" + v.hex()
    if ty == "unsigned":
        return str(v & 0xFFFFFFFF)
    return str(v)


def main(pid, tier, seed, replay):
    chk = C.Check(pid, LEVEL, tier, seed)
    rng = chk.rng
    souffle = C.build_souffle()
    chk.proof_stage("C21")
    n = 6 if tier == "quick" else 60
    progs = P.gen_programs(rng.fork(pid), n, features)
    oracle = D.oracle_batch(progs)
    base = C.fresh_dir("c21")

    def build(i):
        p = progs[i]
        d = os.path.join(base, str(i))
        D.write_case(p, d)
        name = "gen%d" % i
        rc, so, se = C.sh([souffle, "-w", "-g", os.path.join(d, name + ".cpp"), os.path.join(d, "p.dl")], timeout=120, cwd=d)
        if rc != 0:
            return None, "souffle -g failed: " + se[-300:]
        exe = os.path.join(d, "api")
        rc, so, se = C.sh(["g++", "-std=c++17", "-O1", "-g0", "-fopenmp", "-D__EMBEDDED_SOUFFLE__", "-DRAM_DOMAIN_SIZE=32", "-I", os.path.join(C.REPO, "src", "include"),
                           os.path.join(d, name + ".cpp"), os.path.join(C.CPP, "api_driver.cpp"), "-o", exe, "-lpthread", "-lsqlite3", "-lz"], timeout=1200)
        if rc != 0:
            return None, "g++ failed: " + se[-500:]
        return exe, name
    built = C.parallel_map(build, range(n))
    stats = {"programs": 0, "api_calls": 0, "contains_checked": 0}
    distinct = set()
    for i, (p, o, (exe, name)) in enumerate(zip(progs, oracle, built)):
        if o[0] != "ok":
            continue
        rep = P.replay_obj(p, None)
        if exe is None:
            chk.finding(None, "a program the interpreter accepts cannot be built as a library: %s" % name, rep)
            continue
        stats["programs"] += 1
        d = os.path.join(base, str(i))
        outs = [r for r in p.rels if r.output]
        ins = ["insert %s %s" % (r.name, " ".join(api_value(v, t) for v, t in zip(tup, r.types))) for r in p.rels if r.kind == "edb" for tup in p.facts.get(r.name, [])]
        obs = ["size %s" % r.name for r in outs] + ["dump %s" % r.name for r in outs]
        probes = []
        for r in outs:
            if all(t in ("number", "unsigned") for t in r.types):
                present = [row.split("\t") for row in o[1][r.name][:6]]
                absent = [[str(int(x) + 1000) if k == 0 else x for k, x in enumerate(row)] for row in present[:3]] or [["12345"] * len(r.types)]
                for row in present:
                    probes.append(("contains %s %s" % (r.name, " ".join(row)), "t"))
                for row in absent:
                    if "\t".join(row) not in o[1][r.name]:
                        probes.append(("contains %s %s" % (r.name, " ".join(row)), "f"))
        script = ins + ["run"] + obs + [q for q, _ in probes] + ["run"] + obs + ["purgeInputs", "purgeOutputs", "purgeInternal"] + obs + ins + ["run"] + obs
        os.makedirs(os.path.join(d, "api_out"), exist_ok=True)
        rc, out, err = C.sh([exe, name], input=("\n".join(script) + "\n").encode(), timeout=300, cwd=d)
        stats["api_calls"] += len(script)
        if rc != 0:
            chk.finding(None, "the API driver crashed (status %s): %s" % (rc, err[-300:]), dict(rep, script=script))
            continue
        lines = out.splitlines()
        nobs = 2 * len(outs)
        blocks = [lines[0:nobs], lines[nobs + len(probes): 2 * nobs + len(probes)], lines[2 * nobs + len(probes): 3 * nobs + len(probes)], lines[3 * nobs + len(probes): 4 * nobs + len(probes)]]
        cont = lines[nobs: nobs + len(probes)]
        bad = None
        for bi, (blk, what) in enumerate(zip(blocks, ("after insert+run", "after a second run", "after purging", "after purge + re-insert + run"))):
            for k, r in enumerate(outs):
                exp = [] if bi == 2 else o[1][r.name]
                sz = blk[k].split() if k < len(blk) else []
                dump = blk[len(outs) + k] if len(outs) + k < len(blk) else ""
                rows = sorted(x for x in dump.split(" | ")[1:])
                if not sz or int(sz[-1]) != len(rows):
                    bad = "%s: size() of %s is %s but iteration yields %d tuples" % (what, r.name, sz[-1] if sz else "?", len(rows))
                elif rows != sorted(exp):
                    bad = "%s: relation %s through the API differs from the reference: missing %s unexpected %s" % (what, r.name, sorted(set(exp) - set(rows))[:3], sorted(set(rows) - set(exp))[:3])
        for (q, want), got in zip(probes, cont):
            stats["contains_checked"] += 1
            if got.split()[-1] != want:
                bad = "%s answered %s although iteration says %s" % (q, got.split()[-1], want)
        # file based twin: loadAll + run + printAll
        rc2, out2, err2 = C.sh([exe, name], input=("loadAll %s\nrun\nprintAll %s\n" % (os.path.join(d, "facts"), os.path.join(d, "api_out"))).encode(), timeout=300, cwd=d)
        files = D.read_outputs(p, os.path.join(d, "api_out"))
        fb = D.diff_outputs(o[1], files) if rc2 == 0 else [("loadAll/printAll", [], ["status %s" % rc2], [])]
        if fb and not bad:
            bad = "loadAll + run + printAll differs from the reference: %s" % fb[:2]
        if bad:
            chk.finding(None, "C21: " + bad, dict(rep, script=script[:200], output=out[:3000]))
        else:
            distinct.add(P.prog_hash(p))
            if len(chk.samples) < 2:
                chk.sample({"program": p.render_dl()[:600], "script_head": script[:6], "observations": lines[:4]})
    chk.cov.update({"evaluations": stats["api_calls"], "distinct_nontrivial": max(len(distinct), 0), "programs": stats["programs"], "disagreements_checked": 0,
                    "rule": "generated programs over number / unsigned / symbol columns compiled with -g and driven through the API: insert* run observe contains* run observe purge* observe insert* run observe, "
                            "plus loadAll/run/printAll; non-trivial = distinct program whose whole call sequence agreed with the reference", "stats": stats})
    return chk.finish(P.PIPE_TB + ["cpp/api_driver.cpp; g++ for the generated library"])
