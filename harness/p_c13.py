"""C13 -- Static checks reject exactly the ill-formed programs.

proof:  Properties_C13.v -- the executable stratification check used by the oracle (DatalogDefs.strata_ok) accepts a
        stratum order iff it is a stratification: no relation depends on itself through negation or aggregation
        (level-function characterisation).
tie:    every generated well-formed program must be accepted by souffle and by the model's check; the same program
        with ONE injected defect (negation cycle, aggregation cycle through 1-3 relations, ungrounded head / negated /
        constraint variable, type mismatch) must be rejected: status 1, the matching diagnostic, no output file; for the
        cycle defects the extracted model check must reject too (verdicts compared).
"""
import copy
import os
import shutil

import common as C
import dl as D
import gen as G
import pipeline as P

LEVEL = "proof"


def depends_on(p):
    dep = {r.name: set() for r in p.rels}
    for h, _, body in p.clauses:
        for l in body:
            for rn in G.lit_rels(l):
                dep[h].add(rn)
    # transitive closure
    ch = True
    while ch:
        ch = False
        for a in dep:
            for b in list(dep[a]):
                new = dep[b] - dep[a]
                if new:
                    dep[a] |= new
                    ch = True
    return dep


def inject(p, kind, rng):
    """returns (program', expected message fragments, model_must_reject_stratification) or None"""
    q = copy.deepcopy(p)
    idb = [r for r in q.rels if r.kind == "idb"]
    dep = depends_on(q)
    if kind in ("neg_cycle", "agg_cycle"):
        # pick R that (transitively) depends on S (idb) and give S a clause that negates / aggregates R
        pairs = [(r, s) for r in idb for s in idb if s.name in dep[r.name] or s is r]
        if not pairs:
            return None
        r, s = rng.choice(pairs)
        src = [x for x in q.rels if x.kind == "edb"][0]
        g = G.Gen(rng, features=[])
        g.p = q
        g.nvar = 9000
        lit, bound = g.atom(src, [])
        head = []
        for t in s.types:
            v = g.pick_var(bound, t)
            head.append(v if v is not None else g.const_term(t))
        if kind == "neg_cycle":
            args = []
            for t in r.types:
                v = g.pick_var(bound, t)
                args.append(v if v is not None else ("anon", t))
            body = [lit, ("neg", r.name, args)]
        else:
            loc = [g.fresh(t) for t in r.types]
            res = g.fresh("number")
            body = [lit, ("agg", res[1], "count", "number", None, [("pos", r.name, loc)])]
        q.clauses.append((s.name, head, body))
        return q, ["Unable to stratify"], True
    if kind == "ungrounded_head":
        cs = [i for i, c in enumerate(q.clauses) if c[2] and c[1]]
        if not cs:
            return None
        i = rng.choice(cs)
        h, args, body = q.clauses[i]
        j = rng.below(len(args))
        ty = q.rel(h).types[j]
        args = list(args)
        args[j] = ("var", "zz_free", ty)
        q.clauses[i] = (h, args, body)
        return q, ["Ungrounded variable zz_free"], False
    if kind in ("ungrounded_neg", "ungrounded_cmp"):
        cs = [i for i, c in enumerate(q.clauses) if c[2]]
        if not cs:
            return None
        i = rng.choice(cs)
        h, args, body = q.clauses[i]
        if kind == "ungrounded_neg":
            r = rng.choice([x for x in q.rels if x.layer < max(1, q.rel(h).layer)] or q.rels[:1])
            lit = ("neg", r.name, [("var", "zz_free", r.types[0])] + [("anon", t) for t in r.types[1:]])
        else:
            lit = ("cmp", "lt", ("var", "zz_free", "number"), ("num", 3, "number"))
        q.clauses[i] = (h, args, list(body) + [lit])
        return q, ["Ungrounded variable zz_free"], False
    if kind == "type_mismatch":
        cs = [i for i, c in enumerate(q.clauses) if c[1]]
        if not cs:
            return None
        i = rng.choice(cs)
        h, args, body = q.clauses[i]
        j = rng.below(len(args))
        ty = q.rel(h).types[j]
        args = list(args)
        args[j] = ("str", b"oops") if ty != "symbol" else ("num", 7, "number")
        q.clauses[i] = (h, args, body)
        return q, ["Error"], False   # several wordings: type mismatch / not a subtype / unable to deduce / no valid overloads
    return None


KINDS = ["neg_cycle", "agg_cycle", "ungrounded_head", "ungrounded_neg", "ungrounded_cmp", "type_mismatch"]


def main(pid, tier, seed, replay):
    chk = C.Check(pid, LEVEL, tier, seed)
    C.build_souffle()
    chk.proof_stage()
    n = 40 if tier == "quick" else 800
    progs = P.gen_programs(chk.rng.fork(pid), n, lambda r: P.random_features(r, always=["neg", "recursion"]))
    oracle = D.oracle_batch(progs)
    cases = []   # (program, kind, expected fragments, model_reject)
    for i, p in enumerate(progs):
        cases.append((p, "well-formed", None, False))
        r = chk.rng.fork("inj%d" % i)
        for kind in KINDS:
            x = inject(p, kind, r)
            if x is not None:
                cases.append((x[0], kind, x[1], x[2]))
    model = D.oracle_batch([c[0] for c in cases], fuel=60)
    base = os.path.join(C.WORK, "cases", pid)
    shutil.rmtree(base, ignore_errors=True)

    def one(k):
        p = cases[k][0]
        d = os.path.join(base, str(k))
        D.write_case(p, d)
        rc, se, outs = D.run_souffle(p, d, jobs=1, timeout=60)
        written = [f for f in os.listdir(os.path.join(d, "out"))]
        return rc, se, written
    res = C.parallel_map(one, range(len(cases)))
    hist, distinct = {}, set()
    for (p, kind, frags, model_reject), (rc, se, written), m in zip(cases, res, model):
        hist[kind] = hist.get(kind, 0) + 1
        rep = {"program": p.render_dl(), "injected": kind, "souffle_status": rc, "stderr": se[-600:], "model": m[0]}
        if kind == "well-formed":
            if rc == -9:
                # the run hit the time limit (a generated program that evaluates for too long): says nothing about the
                # accept / reject verdict, which is what this property is about -- counted, not reported
                hist["well-formed, run not finished"] = hist.get("well-formed, run not finished", 0) + 1
                continue
            if rc != 0:
                chk.finding(None, "a well-formed, grounded, stratifiable program was rejected (status %s)" % rc, rep)
            if m[0] == "stuck":
                chk.violation("model check rejects a program souffle accepts", dict(rep, correspondence="strata_ok / groundedness vs souffle"), no_input=True)
            continue
        distinct.add(P.prog_hash(p) + kind)
        if rc == 0:
            chk.finding(None, "program with an injected %s defect was accepted and evaluated" % kind, rep)
        elif rc != 1:
            chk.finding(None, "program with an injected %s defect ended with status %s (not a diagnostic exit)" % (kind, rc), rep)
        elif not any(f in se for f in frags):
            chk.finding(None, "rejection of a %s defect lacks the expected diagnostic %s" % (kind, frags), rep)
        elif written:
            chk.finding(None, "output files %s were written although the program was rejected" % written, rep)
        if model_reject and m[0] != "stuck":
            chk.violation("model stratification check accepted a program with an injected %s (souffle verdict: %s)" % (kind, rc),
                          dict(rep, correspondence="DatalogDefs.strata_ok vs souffle's stratification verdict"), no_input=True)
        if len(chk.samples) < 5 and rc == 1:
            chk.sample({"injected": kind, "diagnostic": [l for l in se.splitlines() if l.startswith("Error")][:2], "model_verdict": m[0]})
    chk.cov.update({"evaluations": len(cases), "distinct_nontrivial": len(distinct),
                    "rule": "each generated well-formed program + one variant per defect kind %s; non-trivial = distinct (program, defect)" % KINDS,
                    "traces_validated_against_impl": len(cases), "by_kind": hist})
    return chk.finish(P.PIPE_TB + ["defect injection in harness/p_c13.py (the expected verdict of an injected defect is known by construction)"])
