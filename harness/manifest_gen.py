"""Regenerates MANIFEST.json from the table below (kept here so that the manifest stays valid)."""
import json, os
V = os.path.dirname(os.path.dirname(os.path.abspath(__file__)))
CHECKS = {}
NA = {}

def chk(pid, category, text, note, technique, design_ref, thorough=True):
    CHECKS[pid] = {
        "property_id": pid,
        "quick_cmd": "./check %s --tier quick" % pid,
        **({"thorough_cmd": "./check %s --tier thorough" % pid} if thorough else {}),
        "evidence_file": "evidence/%s.json" % pid,
        "replay_cmd_template": "./check %s --replay {path}" % pid,
        "engine": "coq-proof+correspondence",
        "level_claimed": {"category": category, "text": text, "design_ref": design_ref},
        "level_note": note,
        "technique": technique,
    }

exec(open(os.path.join(V, "harness", "manifest_table.py")).read())

ALL = ["C%02d" % i for i in range(1, 32)]
m = {
    "version": 1,
    "setup_cmd": "./setup.sh",
    "hooks": {
        "guard": "SOUFFLE_VERIF",
        "enable": "checks build /repo's working tree in /verif/_work/build with -DCMAKE_CXX_FLAGS='-O1 -g0 -DSOUFFLE_VERIF' and compile the data-structure harnesses with -DSOUFFLE_VERIF against /repo/src/include",
        "baseline_off_cmd": "cmake --build /repo/_build && ctest --test-dir /repo/_build -j8 --timeout 900",
        "source_commits": HOOK_COMMITS,
        "add_only": True,
    },
    "engines": [{"name": "coq-proof+correspondence", "path": "check", "serves_properties": sorted(CHECKS),
                 "kind_free_text": "Coq 8.16 theorems over executable models (coq/theories), extracted to OCaml (ocaml/), run against the real code through C++ harnesses (cpp/) and the hooked souffle binary; python drivers in harness/"}],
    "checks": [CHECKS[k] for k in sorted(CHECKS)],
    "notes": "See DESIGN.md. Fixes of genuine defects are 'fix:' commits in /repo listed in known_findings.json.",
    "not_applicable": [{"property_id": p, "reason": NA.get(p, "check not built yet in this round (see DESIGN.md build order); not claimed")} for p in ALL if p not in CHECKS],
}
json.dump(m, open(os.path.join(V, "MANIFEST.json"), "w"), indent=1)
print("checks:", sorted(CHECKS), "n/a:", len(m["not_applicable"]))
