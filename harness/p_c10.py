"""C10 -- Choice-domain results are functional, sound and maximal.

proof:  Properties_C10.v (ContractDefs/ContractLemmas on top of the proved oracle machinery): the executable contract checker
        `choice_ok` accepts a final database iff (1) no two tuples of the relation agree on a declared key, (2) every tuple
        is an instance of one of its rules over the final database, (3) every rule instance over the final database that is
        absent clashes on some key with a present tuple; each rejection constructor is witnessed; and a model of guarded
        insertion shows that inserting the candidates one at a time in ANY order ends functional and maximal.
tie:    verified validator on REAL outputs: programs with choice-domain declarations (single keys, several keys, compound
        keys; non-recursive and recursive rules) are run in the interpreter at -j1,4,16 with perturbed schedules and as
        compiled executables; the extracted checker judges every final relation. Transformed RAM: no PARALLEL mark on a
        query with GUARDED INSERT.
"""
import os

import common as C
import dl as D
import gen as G

LEVEL = "proof"
GUARD_RE = __import__("re").compile(r"INSERT \(.*\) INTO \S+ IF \(")   # how the RAM printer shows a guarded insert


def make_program(rng):
    p = G.Prog()
    p.features = {"choice"}
    mk = lambda name, types, k: p.rels.append(G.Rel(len(p.rels), name, types, k)) or p.rels[-1]
    ar = rng.range(2, 3)
    e = mk("e", ["number"] * ar, "edb")
    f = mk("f", ["number", "number"], "edb")
    c = mk("c", ["number"] * ar, "idb")
    c.output = True
    c.layer = 1
    cols = list(range(ar))
    kind = rng.below(4)
    if kind == 0:
        keys = [[rng.choice(cols)]]
    elif kind == 1:
        keys = [[0], [1]]
    elif kind == 2:
        keys = [sorted(rng.shuffle(cols)[:2])]
    else:
        keys = [[0], sorted(rng.shuffle(cols)[:2])] if ar > 2 else [[1]]
    names = ["c%d" % i for i in range(ar)]
    c.quals = ["choice-domain " + ", ".join(names[k[0]] if len(k) == 1 else "(" + ", ".join(names[i] for i in k) + ")" for k in keys)]
    V = lambda n: ("var", n, "number")
    vs = [V("x%d" % i) for i in range(ar)]
    p.clauses.append(("c", vs, [("pos", "e", vs)]))
    if rng.chance(1, 2):
        body = [("pos", "e", vs)] + ([("cmp", "lt", vs[0], vs[1])] if rng.chance(1, 2) else [])
        head = list(vs)
        head[0], head[1] = vs[1], vs[0]
        p.clauses.append(("c", head, body))
    recursive = rng.chance(1, 2)
    if recursive:
        w = V("w")
        head = [vs[0], w] + vs[2:]
        p.clauses.append(("c", head, [("pos", "c", vs), ("pos", "f", [vs[1], w])]))
    n = rng.range(3, 25)
    dom = rng.range(2, 6)
    p.facts["e"] = list({tuple(rng.below(dom) for _ in range(ar)) for _ in range(n)})
    p.facts["f"] = list({(rng.below(dom), rng.below(dom)) for _ in range(rng.range(0, 12))})
    return p, keys, recursive


def contract_line(p, keys, rows):
    """S-expression for ocaml/contract_driver: final database = input facts + the relation souffle wrote"""
    c = p.rel("c")
    db = []
    for r in p.rels:
        if r.kind == "edb":
            db.append("(%d %s)" % (r.id, " ".join("(" + " ".join("(n %d)" % v for v in t) + ")" for t in p.facts[r.name])))
    db.append("(%d %s)" % (c.id, " ".join("(" + " ".join("(n %s)" % v for v in row.split("\t")) + ")" for row in rows)))
    cls = " ".join(p.clause_sx(cl) for cl in p.clauses if cl[0] == "c")
    return "(choice (db %s) (rel %d) (keys %s) (clauses %s))" % (" ".join(db), c.id, " ".join("(" + " ".join(map(str, k)) + ")" for k in keys), cls)


def main(pid, tier, seed, replay):
    chk = C.Check(pid, LEVEL, tier, seed)
    rng = chk.rng
    souffle = C.build_souffle()
    chk.proof_stage()
    checker = C.ocaml_driver("contract")
    nprog = 40 if tier == "quick" else 800
    runs = []
    progs = []
    for i in range(nprog):
        p, keys, rec = make_program(rng.fork("p%d" % i))
        progs.append((p, keys, rec))
        d = C.fresh_dir("c10", str(i))
        D.write_case(p, d)
        for j, pert in ((1, None), (4, None), (4, "1"), (16, None), (16, "2")):
            runs.append((i, d, j, pert, False))
        if i % 8 == 0:
            runs.append((i, d, 4, None, True))

    def one(k):
        i, d, j, pert, compiled = runs[k]
        p = progs[i][0]
        dl = "p.dl"
        if compiled:
            dl = "pc.dl"
            open(os.path.join(d, dl), "w").write(p.render_dl())
        return D.run_souffle(p, d, args=(["-c"] if compiled else []), outsub="out_%d" % k, timeout=900, jobs=j, dl=dl,
                             env={"SOUFFLE_VERIF_PERTURB": pert} if pert else None)
    res = C.parallel_map(one, range(len(runs)))
    lines, meta = [], []
    for (i, d, j, pert, compiled), (rc, se, outs) in zip(runs, res):
        p, keys, rec = progs[i]
        rep = {"program": p.render_dl(), "facts": {n: p.facts_text(n) for n in ("e", "f")}, "jobs": j, "perturb": pert, "compiled": compiled}
        if rc != 0:
            chk.finding(None, "souffle failed (status %s) on a choice-domain program: %s" % (rc, se[-200:]), rep)
            continue
        lines.append(contract_line(p, keys, outs["c"]))
        meta.append((rep, outs["c"], rec, keys))
    rc, out, err = C.sh([checker], input=("\n".join(lines) + "\n").encode(), timeout=1200)
    verdicts = out.splitlines()
    distinct = set()
    results_differ = 0
    by_prog = {}
    for (rep, rows, rec, keys), v in zip(meta, verdicts):
        v = v.strip()
        by_prog.setdefault(rep["program"] + str(rep["facts"]), set()).add(tuple(sorted(rows)))
        if v == "ok":
            distinct.add((rep["program"], str(rep["facts"]), rep["jobs"], rep["perturb"], rep["compiled"]))
            if len(chk.samples) < 3 and len(rows) > 2:
                chk.sample({"keys": keys, "recursive": rec, "rows": rows[:8], "jobs": rep["jobs"], "verdict": v})
        elif v.startswith("nohyp") or v in ("stuck", "undef") or v.startswith("parse"):
            chk.violation("the contract checker could not judge a run (%s)" % v[:60], dict(rep, validator="ContractDefs.choice_ok", rows=rows), no_input=True)
        else:
            chk.finding(None, "choice-domain contract violated by souffle's result: %s" % v[:200], dict(rep, rows=rows))
    results_differ = sum(1 for s in by_prog.values() if len(s) > 1)
    # RAM: guarded inserts are never parallelised
    marks = 0
    for i, (p, keys, rec) in enumerate(progs[: 20 if tier == "quick" else 200]):
        d = os.path.join(C.WORK, "c10", str(i))
        rc, ram, err = C.sh([souffle, "-w", os.path.join(d, "p.dl"), "--show=transformed-ram", "-j4"], timeout=60)
        ls = ram.split("\n")
        for k, l in enumerate(ls):
            if l.strip().startswith("PARALLEL"):
                ind = len(l) - len(l.lstrip())
                m = k + 1
                while m < len(ls) and len(ls[m]) - len(ls[m].lstrip()) > ind:
                    if GUARD_RE.search(ls[m]):
                        chk.finding(None, "a query with GUARDED INSERT was parallelised", {"program": p.render_dl(), "ram": ram[:3000]})
                    m += 1
            if GUARD_RE.search(l):
                marks += 1
    chk.cov.update({"evaluations": len(runs), "distinct_nontrivial": len(distinct),
                    "rule": "choice-domain programs (arity 2-3; single / several / compound keys; 1-2 non-recursive rules, half with a recursive rule) on small dense facts x "
                            "{-j1, -j4, -j16, perturbed, compiled}; non-trivial = distinct accepted (program, facts, configuration)",
                    "traces_validated_against_impl": len(verdicts), "programs_whose_result_depends_on_schedule": results_differ, "guarded_inserts_seen_in_ram": marks})
    chk.assumptions = ["the final database given to the checker = input facts + the relation souffle wrote (nothing depends on the choice relation)"]
    return chk.finish(["Coq 8.16.1 kernel; Properties_C10.v closed under the global context", "extraction ExtrOcamlBasic; ocaml/contract_driver.ml",
                       "harness/gen.py clause rendering (text / S-expression)", "hook H6 perturbation",
                       "modelled: the contract and sequential guarded insertion; the engines' guarded insert is validated on its results, not modelled"])
