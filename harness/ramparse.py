"""Translator from Souffle's `--show=initial-ram` text to the stratum skeletons read by the proved validator
(coq/theories/SemiNaiveRam.v, ocaml/snram_driver.ml). Fails closed: a LOOP it cannot read is returned as
('unsupported', reason) and is counted, never passed as accepted. Trusted glue (see DESIGN.md)."""
import re

FOR_RE = re.compile(r"^(?:PARALLEL )?FOR t(\d+) IN (\S+)$")
INSERT_RE = re.compile(r"^(?:GUARDED )?INSERT \((.*)\) INTO (\S+)$")
NEG_RE = re.compile(r"^IF \(NOT \((.*)\) IN (\S+)\)$")
EQ_RE = re.compile(r"^IF \((.+?) = (.+)\)$")
EXIT_EMPTY_RE = re.compile(r"ISEMPTY\((\S+?)\)")
LIMIT_RE = re.compile(r"^EXIT \(SIZE\((\S+)\) >= (?:NUMBER|UNSIGNED)\((\d+)\)\)$")
ELEM_RE = re.compile(r"^t(\d+)\.(\d+)$")
NONEMPTY_RE = re.compile(r"^IF \(NOT ISEMPTY\((\S+)\)\)$")
EMPTY_RE = re.compile(r"^IF ISEMPTY\((\S+)\)$")
BREAK_RE = re.compile(r"^IF \(NOT ISEMPTY\((\S+)\)\) BREAK$")


def split_args(s):
    """split a comma separated argument list at depth 0"""
    out, depth, cur = [], 0, ""
    for ch in s:
        if ch in "([":
            depth += 1
        elif ch in ")]":
            depth -= 1
        if ch == "," and depth == 0:
            out.append(cur.strip())
            cur = ""
        else:
            cur += ch
    if cur.strip() or out:
        out.append(cur.strip())
    return out


class Interner:
    def __init__(self):
        self.rel, self.expr = {}, {}

    def relid(self, name):
        base, kind = name, 0
        if name.startswith("@delta_"):
            base, kind = name[7:], 1
        elif name.startswith("@new_"):
            base, kind = name[5:], 2
        return self.rel.setdefault(base, len(self.rel)), kind

    def elem(self, text):
        m = ELEM_RE.match(text.strip())
        if m:
            return "(e %s %s)" % (m.group(1), m.group(2))
        return "(k %d)" % self.expr.setdefault(text.strip(), len(self.expr))


def parse_query(lines, it):
    """lines: stripped statement lines of one QUERY. returns dict or raises ValueError.
    Emptiness filters: `IF (NOT ISEMPTY(X))` directly under `FOR t IN X` (only BREAK lines between) is the test that
    addAtomScan puts under every scan; the scan implies it, it is counted in `others`. Every other `IF (NOT ISEMPTY(X))` is
    the existence test of an atom without a scan (arity 0 or only unnamed arguments) -> `tests`. `IF ISEMPTY(X)` -> `empties`
    (negated delta of an atom of arity 0, guard of a head of arity 0, negated atom of arity 0, test before INSERT () INTO @new),
    `IF (NOT ISEMPTY(X)) BREAK` -> `breaks`. The validator decides which of them are admissible where."""
    scans, eqs, negs, others, insert = [], [], [], 0, None
    tests, empties, breaks = [], [], []
    under_scan = None          # (rel, kind) of the FOR whose implied emptiness test has not been seen yet
    for l in lines:
        m = BREAK_RE.match(l)
        if m:
            breaks.append(it.relid(m.group(1)))
            continue
        m = FOR_RE.match(l)
        if m:
            r, k = it.relid(m.group(2))
            scans.append((int(m.group(1)), r, k))
            under_scan = (r, k)
            continue
        implied, under_scan = under_scan, None
        m = NONEMPTY_RE.match(l)
        if m:
            rk = it.relid(m.group(1))
            if rk == implied:
                others += 1
            else:
                tests.append(rk)
            continue
        m = EMPTY_RE.match(l)
        if m:
            empties.append(it.relid(m.group(1)))
            continue
        m = INSERT_RE.match(l)
        if m:
            r, k = it.relid(m.group(2))
            insert = (r, k, [it.elem(a) for a in split_args(m.group(1))])
            continue
        m = NEG_RE.match(l)
        if m:
            if "UNDEF" in split_args(m.group(1)):
                # an atom with `_` yields a partial-pattern existence check, not "tuple not in delta" (outside the validator's scheme)
                raise ValueError("anonymous variable in a negated existence check")
            if not m.group(1).strip():
                raise ValueError("existence check without arguments")
            r, k = it.relid(m.group(2))
            negs.append((r, k, [it.elem(a) for a in split_args(m.group(1))]))
            continue
        m = EQ_RE.match(l)
        if m and " AND " not in l and "!=" not in l and "<=" not in l and ">=" not in l:
            eqs.append((it.elem(m.group(1)), it.elem(m.group(2))))
            continue
        if l.startswith("IF ") and not l.endswith(" BREAK") and "ISEMPTY(" not in l:
            others += 1
            continue
        raise ValueError("unsupported operation in a recursive query: " + l[:80])
    if insert is None:
        raise ValueError("query without INSERT")
    return {"scans": scans, "eqs": eqs, "negs": negs, "others": others, "insert": insert,
            "tests": tests, "empties": empties, "breaks": breaks}


def version_sx(q):
    extra = "".join(" (%s %s)" % (name, " ".join("(%d %d)" % rk for rk in q[name]))
                    for name in ("tests", "empties", "breaks") if q[name])
    return "(version (scans %s) (eqs %s) (negs %s) (others %d) (insert %d %d (%s))%s)" % (
        " ".join("(%d %d %d)" % s for s in q["scans"]), " ".join("(%s %s)" % e for e in q["eqs"]),
        " ".join("(%d %d (%s))" % (r, k, " ".join(a)) for r, k, a in q["negs"]), q["others"],
        q["insert"][0], q["insert"][1], " ".join(q["insert"][2]), extra)


def strata(ram_text):
    """yields ('ok', skeleton_sexpr, info) or ('unsupported', reason, info) for every LOOP ... END LOOP"""
    lines = ram_text.split("\n")
    n = len(lines)
    i = 0
    results = []
    while i < n:
        if lines[i].strip() != "LOOP":
            i += 1
            continue
        j = i + 1
        while j < n and lines[j].strip() != "END LOOP":
            j += 1
        body = [l.strip() for l in lines[i + 1:j]]
        # the preamble: copy queries directly before the LOOP (scan backwards over QUERY blocks and LET)
        pre = []
        k = i - 1
        while k >= 0:
            s = lines[k].strip()
            if s.startswith("LET VARIABLE") or s in ("END QUERY", "QUERY") or s.startswith("FOR t0 IN") or s.startswith("INSERT (") \
                    or NONEMPTY_RE.match(s):
                pre.append(s)
                k -= 1
                continue
            break
        pre.reverse()
        it = Interner()
        try:
            results.append(("ok",) + one_stratum(pre, body, it))
        except ValueError as e:
            results.append(("unsupported", str(e), {}))
        i = j + 1
    return results


def one_stratum(pre, body, it):
    # copy statements: FOR t0 IN src / INSERT (t0.0,..) INTO dst, and for arity 0: IF (NOT ISEMPTY(src)) / INSERT () INTO dst
    preamble, pre_nullary, upd_nullary = [], set(), set()
    for a, b in zip(pre, pre[1:]):
        m1 = FOR_RE.match(a)
        m0 = NONEMPTY_RE.match(a)
        m2 = INSERT_RE.match(b)
        if m1 and m2 and m2.group(1).strip() and m2.group(2) == "@delta_" + m1.group(2):
            preamble.append(it.relid(m1.group(2))[0])
        elif m0 and m2 and not m2.group(1).strip() and m2.group(2) == "@delta_" + m0.group(1):
            preamble.append(it.relid(m0.group(1))[0])
            pre_nullary.add(it.relid(m0.group(1))[0])
    clauses, exits, limits, updates = [], [], [], {}
    order = []
    cur_debug, cur_clause = None, None
    idx = 0
    while idx < len(body):
        l = body[idx]
        if l.startswith("DEBUG "):
            if l != cur_debug:
                cur_debug = l
                cur_clause = []
                clauses.append(cur_clause)
            idx += 1
            continue
        if l in ("END DEBUG",):
            idx += 1
            continue
        if l == "QUERY":
            e = idx + 1
            while body[e] != "END QUERY":
                e += 1
            qlines = body[idx + 1:e]
            q = parse_query(qlines, it)
            idx = e + 1
            r, k, args = q["insert"]
            plain = not q["negs"] and not q["eqs"] and not q["empties"] and not q["breaks"] and q["others"] == 0
            if k == 0 and plain and args and len(q["scans"]) == 1 and q["scans"][0][2] == 2 and q["scans"][0][1] == r and not q["tests"]:
                updates.setdefault(r, [0, 0, 0])[0] = 1          # merge @new_R into R
                if r not in order:
                    order.append(r)
                continue
            if k == 0 and plain and not args and not q["scans"] and q["tests"] == [(r, 2)]:
                updates.setdefault(r, [0, 0, 0])[0] = 1          # arity 0: IF (NOT ISEMPTY(@new_R)) INSERT () INTO R
                upd_nullary.add(r)
                if r not in order:
                    order.append(r)
                continue
            if cur_clause is None:
                raise ValueError("query outside a DEBUG block: " + " / ".join(qlines)[:100])
            cur_clause.append(q)
            continue
        m = LIMIT_RE.match(l)
        if m:
            limits.append((it.relid(m.group(1))[0], int(m.group(2))))
            idx += 1
            continue
        if l.startswith("EXIT "):
            names = EXIT_EMPTY_RE.findall(l)
            stripped = re.sub(r"ISEMPTY\(\S+?\)", "", l).replace("AND", "").replace("EXIT", "").replace("(", "").replace(")", "").strip()
            if stripped:
                raise ValueError("unsupported exit condition: " + l[:80])
            for nm in names:
                r, k = it.relid(nm)
                if k != 2:
                    raise ValueError("exit tests a relation that is not @new: " + nm)
                exits.append(r)
            idx += 1
            continue
        m = re.match(r"^SWAP \((\S+), (\S+)\)$", l)
        if m:
            (r1, k1), (r2, k2) = it.relid(m.group(1)), it.relid(m.group(2))
            if r1 != r2 or {k1, k2} != {1, 2}:
                raise ValueError("unsupported swap: " + l)
            updates.setdefault(r1, [0, 0, 0])[1] = 1
            idx += 1
            continue
        m = re.match(r"^CLEAR (\S+)$", l)
        if m:
            r, k = it.relid(m.group(1))
            if k != 2:
                raise ValueError("loop clears a relation that is not @new: " + l)
            updates.setdefault(r, [0, 0, 0])[2] = 1
            idx += 1
            continue
        if l.startswith("ASSIGN VARIABLE(loop_counter)") or l.startswith("ESTIMATEJOINSIZE") or l == "END LOOP":
            idx += 1
            continue
        raise ValueError("unsupported statement in a recursive stratum: " + l[:80])
    scc = sorted(updates)
    # the validator's semantics gives a relation of `nullary` the arity-0 form of BOTH copy statements
    if pre_nullary != upd_nullary:
        raise ValueError("copy statements of a relation disagree on arity 0: %s" % sorted(pre_nullary ^ upd_nullary))
    nullary = sorted(upd_nullary)
    sx = "(stratum (scc %s) (preamble %s) (exit %s) (limits %s) (update %s) %s%s)" % (
        " ".join(map(str, scc)), " ".join(map(str, preamble)), " ".join(map(str, exits)),
        " ".join("(%d %d)" % l for l in limits), " ".join("(%d %d %d %d)" % tuple([r] + updates[r]) for r in scc),
        "(nullary %s) " % " ".join(map(str, nullary)) if nullary else "",
        " ".join("(clause %d %s)" % (ci, " ".join(version_sx(q) for q in c)) for ci, c in enumerate(clauses) if c))
    scc_atoms = lambda q: sum(1 for s in q["scans"] if s[1] in updates and s[2] in (0, 1)) + sum(1 for t in q["tests"] if t[0] in updates and t[1] in (0, 1))
    info = {"scc_size": len(scc), "clauses": len([c for c in clauses if c]), "versions": sum(len(c) for c in clauses),
            "max_scc_atoms": max([scc_atoms(q) for c in clauses for q in c] or [0]),
            "scanless_atoms": sum(1 for c in clauses for q in c[:1] for t in q["tests"] if t[0] in updates),
            "nullary_heads": sum(1 for c in clauses if c and not c[0]["insert"][2]),
            "relations": {v: k for k, v in it.rel.items()}}
    return sx, info
