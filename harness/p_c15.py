"""C15 -- Printing a parsed program and reparsing it is lossless.   (proof for the string-constant codec; the rest by correspondence)

proof:  Properties_C15.v -- for EVERY byte string the printed form of a string constant (StringConstant::print) is one
        STRING token of the scanner and lexes back to the same string; printing is injective; the printer before the
        repair is proved not to have that property.
tie:    for generated programs (records, ADTs, aggregates, functors, qualifiers, plans, choice-domain, subsumption, string
        constants with quotes / backslashes / newlines / tabs): P1 = souffle --show=initial-ast P0 must parse; printing P1
        again must give P1 textually (fixpoint); running P1 must give the outputs of P0, which equal the proved oracle.
        The codec model is tied separately: the model's escape of each constant must be the text souffle prints for it.
"""
import os
import re

import common as C
import dl as D
import gen as G
import pipeline as P

LEVEL = "proof"
ESC = {34: '\\"', 92: "\\\\", 7: "\\a", 8: "\\b", 12: "\\f", 10: "\\n", 13: "\\r", 9: "\\t", 11: "\\v"}


def features(r):
    return P.random_features(r, always=["strings", "symbols"])


def escape(b):
    return "".join(ESC.get(c, chr(c)) for c in b)


TRICKY = [b'a"b', b"back\\slash", b"line\nbreak", b"tab\there", b"\\n", b'"', b"\\", b"q\\\"", b"bell\x07", b"plain", b"sq'uote", b"cr\rlf"]


def decorate(p, rng):
    """add qualifiers / directives the generator does not produce and string constants that need escaping"""
    idb = [r for r in p.rels if r.kind == "idb"]
    for r in idb:
        c = rng.below(8)
        if c == 0:
            r.repr = "btree"
        elif c == 1 and r.types:
            r.repr = "brie"
        elif c == 2 and not any(cl[0] == r.name and any(r.name in G.lit_rels(l) for l in cl[2]) for cl in p.clauses):
            pass
    # a relation of tricky symbols, produced by facts in program text (so the constants go through print)
    rel = G.Rel(len(p.rels), "tricky", ["symbol", "number"], "idb")
    rel.output = True
    rel.layer = 9
    p.rels.append(rel)
    # constants with control characters cannot be written to a tab-separated file (C17's `representable`): their length
    # and a concatenation-free observation are output instead
    tlen = G.Rel(len(p.rels), "tlen", ["number", "number"], "idb")
    tlen.output = True
    tlen.layer = 10
    p.rels.append(tlen)
    for i, s in enumerate(rng.shuffle(TRICKY)[: rng.range(3, 8)]):
        if any(c in s for c in b"\n\t\r"):
            p.clauses.append(("tlen", [("op", "strlen", [("str", s)], "number"), ("num", i, "number")],
                              [("pos", "e0", [("anon", "number"), ("anon", "number")])]))
        else:
            p.clauses.append(("tricky", [("str", s), ("num", i, "number")], []))
    p.sym_text = lambda b: '"' + escape(b) + '"'
    return p


def main(pid, tier, seed, replay):
    chk = C.Check(pid, LEVEL, tier, seed)
    souffle = C.build_souffle()
    chk.proof_stage()
    n = 60 if tier == "quick" else 1500
    progs = [decorate(p, chk.rng.fork("dec%d" % i)) for i, p in enumerate(P.gen_programs(chk.rng.fork(pid), n, features))]
    # oracle needs the raw bytes (sym_text only affects the souffle rendering)
    oracle = D.oracle_batch(progs)
    base = os.path.join(C.WORK, "cases", pid)
    import shutil
    shutil.rmtree(base, ignore_errors=True)

    def one(i):
        p = progs[i]
        d = os.path.join(base, str(i))
        D.write_case(p, d)
        r = {}
        rc, p1, e1 = C.sh([souffle, "-w", os.path.join(d, "p.dl"), "--show=initial-ast"], timeout=60, cwd=d)
        r["rc_print0"], r["p1"], r["err0"] = rc, p1, e1
        if rc != 0:
            return r
        with open(os.path.join(d, "p1.dl"), "w", encoding="utf-8", errors="surrogateescape") as fh:
            fh.write(p1)
        rc, p2, e2 = C.sh([souffle, "-w", os.path.join(d, "p1.dl"), "--show=initial-ast"], timeout=60, cwd=d)
        r["rc_print1"], r["p2"], r["err1"] = rc, p2, e2
        rc0, _, out0 = D.run_souffle(p, d, jobs=1, outsub="out0")
        rc1, se1, out1 = D.run_souffle(p, d, jobs=1, outsub="out1", dl="p1.dl")
        r.update({"rc_run0": rc0, "rc_run1": rc1, "out0": out0, "out1": out1, "err_run1": se1})
        return r
    res = C.parallel_map(one, range(len(progs)))
    stats = {"programs": 0, "fixpoint": 0, "same_outputs": 0, "constants_checked": 0}
    distinct = set()
    for i, (p, o, r) in enumerate(zip(progs, oracle, res)):
        if r["rc_print0"] != 0:
            chk.notes.append("program %d not accepted by souffle: %s" % (i, r["err0"][-120:]))
            continue
        stats["programs"] += 1
        rep = {"program": p.render_dl(), "printed_once": r["p1"][:6000]}
        if r.get("rc_print1") != 0:
            chk.finding(None, "the printed form of an accepted program does not parse: %s" % r.get("err1", "")[-300:], rep)
            continue
        if r["p2"] != r["p1"]:
            a, b = r["p1"].splitlines(), r["p2"].splitlines()
            diff = [(x, y) for x, y in zip(a, b) if x != y][:3]
            chk.finding(None, "printing is not a fixpoint: print(parse(print(P))) differs from print(P): %s" % diff, dict(rep, printed_twice=r["p2"][:6000]))
            continue
        stats["fixpoint"] += 1
        if r["rc_run0"] != 0:
            # the ORIGINAL program does not finish (time limit: a generated program that diverges or is too large) or is
            # rejected when run: nothing can be concluded about its printed form -- counted, not reported
            stats["original_does_not_run"] = stats.get("original_does_not_run", 0) + 1
            continue
        if r["rc_run1"] != 0:
            chk.finding(None, "the printed program does not run (status %s / %s): %s" % (r["rc_run0"], r["rc_run1"], r.get("err_run1", "")[-200:]), rep)
            continue
        bad = [(k, sorted(set(v or []) ^ set(r["out1"].get(k) or []))[:4]) for k, v in r["out0"].items() if sorted(v or []) != sorted(r["out1"].get(k) or [])]
        if bad:
            chk.finding(None, "running the printed program gives different outputs: %s" % bad[:2], rep)
            continue
        if o[0] == "ok":
            bad = D.diff_outputs(o[1], r["out1"])
            if bad:
                chk.finding(None, "outputs of the printed program differ from the stratified least model: %s" % bad[:2], rep)
                continue
        stats["same_outputs"] += 1
        # codec tie: every tricky constant must appear in the printed text exactly as the model's escape
        for c in p.clauses:
            if c[0] in ("tricky", "tlen"):
                s = c[1][0][1] if c[0] == "tricky" else c[1][0][2][0][1]
                stats["constants_checked"] += 1
                if ('("%s"' % escape(s)) not in r["p1"]:
                    chk.violation("souffle's printed form of the constant %r is not the model's escape %r" % (s, escape(s)),
                                  dict(rep, correspondence="EscapeDefs.escape vs StringConstant::print"), no_input=True)
        distinct.add(P.prog_hash(p))
        if len(chk.samples) < 2:
            chk.sample({"printed_facts": [l for l in r["p1"].splitlines() if l.startswith("tricky(")][:6]})
    chk.cov.update({"evaluations": len(progs), "distinct_nontrivial": len(distinct),
                    "rule": "generated programs with string functors plus 3-8 facts whose symbol constants contain quotes, backslashes, newlines, tabs, CR, BEL; non-trivial = distinct program that printed, "
                            "reparsed, reached the print fixpoint and reproduced its outputs", "traces_validated_against_impl": stats["programs"], "stats": stats})
    chk.assumptions = ["only the string-constant codec is proved; the rest of the printer/parser pair is tied by the three implementation-level predicates"]
    return chk.finish(["Coq 8.16.1 kernel; Properties_C15.v closed under the global context", "python re-statement of the escape table for the codec tie (harness/p_c15.py ESC)",
                       "generator + oracle glue", "modelled: StringConstant::print and scanner.ll lexString / STRING regex; everything else in ast printing and parser.yy is not modelled"])
