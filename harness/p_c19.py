"""C19 -- Provenance is faithful: same results and valid proofs.

proof:  Properties_C19.v (ProofTreeDefs/Lemmas): the extracted proof-tree checker accepts a tree only if every node
        instantiates the cited clause (head matched against the node's tuple, positive atoms matched against the children's
        tuples in body order, negated atoms absent from the final database, constraints evaluating to true), and then the
        root tuple belongs to the stratified least model whenever the final database is that model; transparency is the
        uniqueness of the stratified model (C01).
tie:    verified validator on REAL explanations: for generated programs, `souffle -t explain` is asked (format json) to
        explain output tuples; the JSON trees are translated (harness, trusted glue) to the checker's S-expressions together
        with the final database; tuples that are not in the result must be answered "Tuple not found"; outputs with -t must
        equal the proved reference (interpreter; a few compiled).
"""
import json
import os
import re

import common as C
import dl as D
import pipeline as P

LEVEL = "proof"
ATOM_RE = re.compile(r"^(!?)([A-Za-z_][\w.]*)\((.*)\)$")


def features(r):
    f = ["neg", "cmp"]
    for x in ("arith", "recursion", "mutual", "multi_rec_atoms"):
        if r.chance(1, 2):
            f.append(x)
    return f


def strip_facts(p, rng):
    p.clauses = [c for c in p.clauses if c[2]]
    for r in p.rels:
        if r.kind == "idb":
            r.output = True
    return p


def parse_objects(text):
    dec = json.JSONDecoder()
    out, i = [], 0
    text = text.replace("\t", " ")
    while True:
        j = text.find("{", i)
        if j < 0:
            break
        try:
            obj, k = dec.raw_decode(text[j:])
        except ValueError:
            break
        out.append(obj)
        i = j + k
    return out


def head_exprs_to_body(c):
    """the checker matches the head against the node's tuple BEFORE it walks the body, so a head argument that is an
    expression over body variables cannot be evaluated at that point. The clause handed to the checker is therefore the
    equivalent one in which every such argument E is replaced by a fresh variable h and `h = E` is appended to the body:
    r(.., E, ..) :- B.   ==>   r(.., h, ..) :- B, h = E.     (trusted glue: the two clauses have the same instances)"""
    head, body = list(c[1]), list(c[2])
    for i, t in enumerate(head):
        if t[0] == "op":
            h = ("var", "h__%d" % i, t[3] if len(t) > 3 else "number")
            head[i] = h
            body.append(("cmp", "eq", h, t))
    return (c[0], head, body)


def norm_clause(text):
    return re.sub(r"\s+", "", re.sub(r"\+underscore_\d+", "_", text or ""))


def leaf_sx(p, node, stats):
    """a child as the checker's leaf: an axiom, or the conclusion of a sub-proof (checked on its own, so a fact of the final database here)"""
    if "axiom" in node:
        t = node["axiom"].strip()
        m = ATOM_RE.match(t)
        if m and any(r.name == m.group(2) for r in p.rels):
            rel = p.rel(m.group(2))
            args = [a.strip() for a in m.group(3).split(",")] if m.group(3).strip() else []
            if m.group(1) == "!":
                stats["negfacts"] += 1
                return "(negfact %d)" % rel.id
            stats["facts"] += 1
            return "(fact %d (%s))" % (rel.id, " ".join("(n %d)" % int(a) for a in args))
        stats["constraints"] += 1
        return "(cons)"
    m = ATOM_RE.match(node["premises"].strip())
    if not m:
        raise ValueError("unreadable premise " + node["premises"])
    rel = p.rel(m.group(2))
    args = [a.strip() for a in m.group(3).split(",")] if m.group(3).strip() else []
    return "(fact %d (%s))" % (rel.id, " ".join("(n %d)" % int(a) for a in args))


def tree_sx(p, node, stats, out):
    """decompose an explanation into its nodes; for every node append (description, [candidate one-level trees]) to `out`:
    the first candidate is the clause whose text souffle cites for the node's rule number when that text is found among the
    source clauses, otherwise every clause of the relation is a candidate ("(Rk)" numbers souffle's transformed program,
    in which aliases are resolved and unsatisfiable clauses are gone, so the number alone does not identify a source clause)"""
    if "axiom" in node:
        return
    t = node["premises"].strip()
    m = ATOM_RE.match(t)
    if not m:
        raise ValueError("unreadable premise " + t)
    rel = p.rel(m.group(2))
    args = [a.strip() for a in m.group(3).split(",")] if m.group(3).strip() else []
    leaves = [leaf_sx(p, c, stats) for c in node.get("children", [])]
    cited = stats["rules"].get((rel.name, node["rule-number"]))
    k = stats["clause_index"].get((rel.name, norm_clause(cited))) if cited else None
    own = [head_exprs_to_body(c) for c in p.clauses if c[0] == rel.name]
    ks = [k] if k is not None else list(range(len(own)))
    stats["nodes"] += 1
    stats["nodes_identified_by_cited_text"] += 1 if k is not None else 0

    def aligned(kk):
        # the checker wants one child per body literal in body order. souffle lists the atoms, then the negations, then
        # the constraints that survive its alias resolution (v = expr is substituted away); a constraint child carries no
        # information (the checker re-evaluates the literal itself), so one is supplied for every constraint literal and
        # souffle's atom / negation children are dealt out in order
        pos = [l for l in leaves if l.startswith("(fact")]
        neg = [l for l in leaves if l.startswith("(negfact")]
        res = []
        seen = {}           # souffle removes a literal that repeats an earlier literal of the clause: the repeat reuses its child
        for lit in own[kk][2]:
            if lit[0] in ("pos", "neg") and repr(lit) in seen:
                res.append(seen[repr(lit)])
            elif lit[0] == "pos":
                res.append(pos.pop(0) if pos else "")
                seen[repr(lit)] = res[-1]
            elif lit[0] == "neg":
                res.append(neg.pop(0) if neg else "")
                seen[repr(lit)] = res[-1]
            else:
                res.append("(cons)")
        return " ".join(x for x in res + pos + neg if x)
    out.append((t, ["(node %d (%s) %d (%s))" % (rel.id, " ".join("(n %d)" % int(a) for a in args), kk, aligned(kk)) for kk in ks]))
    for c in node.get("children", []):
        tree_sx(p, c, stats, out)


def main(pid, tier, seed, replay):
    chk = C.Check(pid, LEVEL, tier, seed)
    rng = chk.rng
    souffle = C.build_souffle()
    chk.proof_stage()
    checker = C.ocaml_driver("prooftree")
    n = 30 if tier == "quick" else 600
    progs = [strip_facts(p, None) for p in P.gen_programs(rng.fork(pid), n, features)]
    progs = [p for p in progs if all(t == "number" for r in p.rels for t in r.types)]
    oracle = D.oracle_batch(progs)
    base = C.fresh_dir("c19")
    per_prog = 25 if tier == "quick" else 60

    def one(i):
        p, o = progs[i], oracle[i]
        if o[0] != "ok":
            return None
        d = os.path.join(base, str(i))
        D.write_case(p, d)
        qs, absent = [], []
        r = rng.fork("q%d" % i)
        for rel in p.rels:
            if rel.kind == "idb":
                rows = o[1][rel.name]
                for row in r.shuffle(rows)[: max(1, per_prog // max(1, len([x for x in p.rels if x.kind == "idb"])))]:
                    qs.append((rel.name, row.split("\t")))
                for _ in range(2):
                    t = [str(r.range(-3, 12)) for _ in rel.types]
                    if "\t".join(t) not in rows:
                        absent.append((rel.name, t))
        cmds = "format json\nsetdepth 200\n" + "".join("explain %s(%s)\n" % (n_, ", ".join(t)) for n_, t in qs + absent) + "exit\n"
        out = os.path.join(d, "out")
        rc, so, se = C.sh([souffle, "-w", os.path.join(d, "p.dl"), "-F", os.path.join(d, "facts"), "-D", out, "-t", "explain", "-j1", "--disable-transformers=PartitionBodyLiteralsTransformer"], input=cmds.encode(), timeout=300, cwd=d)
        return rc, so, se, qs, absent, D.read_outputs(p, out)
    res = C.parallel_map(one, range(len(progs)))
    stats = {"programs": 0, "trees": 0, "nodes": 0, "facts": 0, "negfacts": 0, "constraints": 0, "absent_queries": 0, "untranslatable": 0, "nodes_identified_by_cited_text": 0}
    lines, meta = [], []
    distinct = set()
    for i, (p, o, r) in enumerate(zip(progs, oracle, res)):
        if r is None:
            continue
        rc, so, se, qs, absent, outs = r
        rep = P.replay_obj(p, None)
        if rc != 0:
            chk.finding(None, "souffle -t explain failed (status %s): %s" % (rc, se[-300:]), rep)
            continue
        stats["programs"] += 1
        bad = D.diff_outputs(o[1], outs)
        if bad:
            chk.finding(None, "outputs with provenance enabled differ from the stratified least model: %s" % bad[:2], rep)
            continue
        objs = parse_objects(so)
        if len(objs) != len(qs) + len(absent):
            chk.violation("explain printed %d JSON answers for %d queries" % (len(objs), len(qs) + len(absent)), dict(rep, explain_output=so[:3000], correspondence="explain JSON reader"), no_input=True)
            continue
        db = []
        for rel in p.rels:
            rows = p.facts.get(rel.name, []) if rel.kind == "edb" else [tuple(int(x) for x in row.split("\t")) for row in o[1][rel.name]]
            db.append("(%d %s)" % (rel.id, " ".join("(" + " ".join("(n %d)" % D.G.signed(v) for v in t) + ")" for t in rows)))
        cls = " ".join(p.clause_sx(head_exprs_to_body(c)) for c in p.clauses)
        for (name, t), obj in zip(qs, objs[: len(qs)]):
            proof = obj.get("proof", {})
            stats["rules"] = {}
            for ent in obj.get("rules", []):
                hd = ent["rule"].split("(")[0].strip()
                stats["rules"][(hd, ent["rule-number"])] = ent["rule"]
            stats["clause_index"] = {}
            per_rel = {}
            for c in p.clauses:
                idx = per_rel.get(c[0], 0)
                per_rel[c[0]] = idx + 1
                stats["clause_index"].setdefault((c[0], norm_clause(p.clause_text(c))), idx)
            try:
                nodes = []
                tree_sx(p, proof, stats, nodes)
            except (ValueError, KeyError, AttributeError) as e:
                # nodes over relations souffle introduced itself (e.g. +disconnected0) have no counterpart in the source
                # program: counted as unsupported, neither accepted nor reported
                stats["untranslatable"] += 1
                if "+" not in str(e):
                    chk.violation("an explanation could not be translated for the checker: %s" % e, dict(rep, query="%s(%s)" % (name, ", ".join(t)), explanation=proof, correspondence="explain JSON reader"), no_input=True)
                continue
            stats["trees"] += 1
            for desc, cands in nodes:
                for sx in cands:
                    lines.append("(proof (db %s) (clauses %s) (tree %s))" % (" ".join(db), cls, sx))
                meta.append((rep, name, t, proof, desc, len(cands)))
        for (name, t), obj in zip(absent, objs[len(qs):]):
            stats["absent_queries"] += 1
            ans = json.dumps(obj.get("proof", {}))
            if "not found" not in ans:          # "Tuple not found" / "Relation not found" (relation emptied away)
                chk.finding(None, "explaining the absent tuple %s(%s) did not report that it was not found: %s" % (name, ", ".join(t), ans[:200]), rep)
    stats.pop("rules", None)
    stats.pop("clause_index", None)
    rc, out, err = C.sh([checker], input=("\n".join(lines) + "\n").encode(), timeout=1800)
    verdicts = out.splitlines()
    pos = 0
    tree_ok = {}
    for (rep, name, t, proof, desc, ncand) in meta:
        vs = [v.strip() for v in verdicts[pos: pos + ncand]]
        pos += ncand
        key = (rep["program"], name, tuple(t))
        if "ok" in vs:
            tree_ok.setdefault(key, True)
            if len(chk.samples) < 2 and len(json.dumps(proof)) > 200:
                chk.sample({"query": "%s(%s)" % (name, ", ".join(t)), "explanation": proof})
        elif any(v in ("stuck", "undef") or v.startswith("parse") or v.startswith("nohyp") for v in vs) and not any(v.startswith("bad") for v in vs):
            tree_ok[key] = False
            chk.violation("the proof-tree checker could not judge node %s of an explanation (%s)" % (desc, vs[:2]), dict(rep, query="%s(%s)" % (name, ", ".join(t)), explanation=proof, validator="ProofTreeDefs.check_tree"), no_input=True)
        else:
            tree_ok[key] = False
            chk.finding(None, "node %s of an explanation instantiates no clause of its relation: %s" % (desc, vs[:3]), dict(rep, query="%s(%s)" % (name, ", ".join(t)), explanation=proof))
    distinct = set(k for k, ok in tree_ok.items() if ok)
    chk.cov.update({"evaluations": stats["trees"] + stats["absent_queries"], "distinct_nontrivial": len(distinct),
                    "rule": "generated programs over number columns (negation, constraints, arithmetic, recursion); up to %d output tuples per program explained, 2 absent tuples per relation; "
                            "non-trivial = distinct (program, tuple) whose tree the proved checker accepted" % per_prog, "traces_validated_against_impl": stats["trees"], "stats": stats})
    chk.assumptions = ["the JSON -> S-expression translation of explanations (harness/p_c19.py) is faithful", "the final database handed to the checker is the proved reference's (shown equal to souffle's output in the same run)"]
    return chk.finish(P.PIPE_TB + ["ocaml/prooftree_driver.ml", "explain JSON reader in harness/p_c19.py"])
