#!/usr/bin/env python3
"""Runs the registered checks against the seeded (deliberately broken) versions of /repo kept under /verif/seeded/<name>/.
For every seeded change: `git -C /repo apply patch.diff`, run the quick check of the property it breaks (and of any other
property listed in meta.json "also_check"), record exit status + VIOLATION lines, then `git -C /repo checkout -- .`.
Usage: python3 harness/seeded.py [name ...]      (results are printed and written to seeded/RESULTS.json)"""
import json
import os
import subprocess
import sys
import time

V = os.path.dirname(os.path.dirname(os.path.abspath(__file__)))
REPO = "/repo"


def sh(cmd, **kw):
    p = subprocess.run(cmd, shell=isinstance(cmd, str), stdout=subprocess.PIPE, stderr=subprocess.STDOUT, **kw)
    return p.returncode, p.stdout.decode("utf-8", "replace")


def main():
    names = sys.argv[1:] or sorted(d for d in os.listdir(os.path.join(V, "seeded")) if os.path.isdir(os.path.join(V, "seeded", d)))
    results = {}
    rp = os.path.join(V, "seeded", "RESULTS.json")
    if os.path.exists(rp):
        results = json.load(open(rp))
    for name in names:
        d = os.path.join(V, "seeded", name)
        meta = json.load(open(os.path.join(d, "meta.json")))
        rc, out = sh(["git", "-C", REPO, "status", "--porcelain", "--untracked-files=no"])
        if out.strip():
            print("refusing: /repo has uncommitted changes"); return 2
        rc, out = sh(["git", "-C", REPO, "apply", os.path.join(d, "patch.diff")])
        if rc != 0:
            print(name, "patch does not apply:", out[:300]); results[name] = {"applied": False}; continue
        res = {"applied": True, "checks": {}}
        try:
            for pid in [meta["property"]] + meta.get("also_check", []):
                t0 = time.time()
                rc, out = sh([os.path.join(V, "check"), pid, "--tier", "quick"], cwd=V, timeout=3600)
                viol = [l for l in out.splitlines() if l.startswith("VIOLATION")]
                res["checks"][pid] = {"exit": rc, "violations": len(viol), "first": viol[:2], "no_failing_input_only": bool(viol) and all("no-failing-input-found" in l for l in viol),
                                      "wall_s": round(time.time() - t0, 1), "reason": [l[2:200] for l in out.splitlines() if l.startswith("# ")][:2]}
                print(name, pid, "exit", rc, "violations", len(viol), res["checks"][pid]["reason"][:1])
        finally:
            sh(["git", "-C", REPO, "checkout", "--", "."])
        results[name] = res
        json.dump(results, open(rp, "w"), indent=1)
    return 0


if __name__ == "__main__":
    sys.exit(main())
