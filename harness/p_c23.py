"""C23 -- A size limit truncates recursion soundly.

proof:  Properties_C23.v -- the loop with the additional exit `|R| >= n` (tested on the main relation before the round's
        merge, as generateStratumExitSequence emits it) returns a subset of the least fixpoint; equals it whenever the
        fixpoint holds fewer than n tuples of the limited relation; and if it stops early the relation already holds at
        least n tuples. (Properties_C09b: the validator accepts the `EXIT (SIZE(R) >= n)` frame and feeds it to loop_run.)
tie:    generated positive recursive programs get `.limitsize R(n=k)` for a recursive relation, for several k around the
        unlimited size; outputs are judged against the proved oracle's unlimited result: subset; equal when that result
        is smaller than k; otherwise at least k tuples.
"""
import copy
import os

import common as C
import dl as D
import gen as G
import pipeline as P

LEVEL = "proof"


def features(r):
    f = ["recursion"]
    for x in ("mutual", "multi_rec_atoms", "cmp", "symbols"):
        if r.chance(1, 2):
            f.append(x)
    return f


def recursive_rels(p):
    rec = set()
    for comp in p.strata(p.clauses):
        names = set(comp)
        for h, _, body in p.clauses:
            if h in names and any(rn in names for l in body for rn in G.lit_rels(l)):
                rec |= {h}
    return sorted(rec)


def main(pid, tier, seed, replay):
    chk = C.Check(pid, LEVEL, tier, seed)
    C.build_souffle()
    chk.proof_stage()
    n = 60 if tier == "quick" else 1000
    progs = P.gen_programs(chk.rng.fork(pid), n, features, size=2.0)
    oracle = D.oracle_batch(progs)
    cases = []
    for i, (p, o) in enumerate(zip(progs, oracle)):
        if o[0] != "ok":
            continue
        for rname in recursive_rels(p):
            if not p.rel(rname).output:
                continue
            full = len(o[1][rname])
            for k in sorted(set([1, max(1, full // 2), max(1, full - 1), full, full + 1, full + 5])):
                cases.append((i, rname, k))
    base = os.path.join(C.WORK, "cases", pid)
    import shutil
    shutil.rmtree(base, ignore_errors=True)

    def one(j):
        i, rname, k = cases[j]
        p = progs[i]
        d = os.path.join(base, "%d_%s_%d" % (i, rname, k))
        D.write_case(p, d, dl_text=p.render_dl(extra=[".limitsize %s(n=%d)" % (rname, k)]))
        return D.run_souffle(p, d, jobs=1)
    res = C.parallel_map(one, range(len(cases)))
    stats = {"runs": len(cases), "stopped_early": 0, "reached_fixpoint": 0}
    distinct = set()
    for (i, rname, k), (rc, se, outs) in zip(cases, res):
        p, o = progs[i], oracle[i]
        rep = P.replay_obj(p, None, {"directive": ".limitsize %s(n=%d)" % (rname, k), "unlimited_size": len(o[1][rname])})
        if rc != 0:
            chk.finding(None, "souffle failed (status %s) with a limitsize directive: %s" % (rc, se[-200:]), rep)
            continue
        got = set(outs[rname])
        full = set(o[1][rname])
        distinct.add((P.prog_hash(p), rname, k))
        if not got <= full:
            chk.finding(None, "limited result of %s contains tuples outside the unlimited result: %s" % (rname, sorted(got - full)[:4]), rep)
        elif len(full) < k and got != full:
            chk.finding(None, "unlimited result of %s (%d tuples) is below the limit %d, but the limited run lost tuples %s" % (rname, len(full), k, sorted(full - got)[:4]), rep)
        elif len(full) >= k and got != full and len(got) < k:
            chk.finding(None, "the limited run stopped early with only %d < %d tuples in %s" % (len(got), k, rname), rep)
        if got == full:
            stats["reached_fixpoint"] += 1
        else:
            stats["stopped_early"] += 1
            if len(chk.samples) < 3:
                chk.sample({"directive": rep["directive"], "unlimited": len(full), "limited": len(got), "program": p.render_dl()[:800]})
    chk.cov.update({"evaluations": len(cases), "distinct_nontrivial": len(distinct),
                    "rule": "positive recursive generated programs x each recursive output relation x limits {1, half, full-1, full, full+1, full+5} of its unlimited size; non-trivial = distinct (program, relation, limit)",
                    "traces_validated_against_impl": len(cases), "stats": stats})
    return chk.finish(P.PIPE_TB)
