"""C02 -- Compiled programs agree with the interpreter (and with the stratified least model).
Every generated program is run by the interpreter, as a single-file compiled executable (-c) and as a
multi-file one (-C); all three must equal the oracle. The synthesiser's C++ emission is not modelled."""
import pipeline as P
import volume as V

LEVEL = "translation_validation"


def features(r):
    return P.random_features(r, always=["sentinels"] if r.chance(1, 2) else [])


def configs(p):
    t = lambda q: q.render_dl()
    return [P.Config("interpreter", jobs=1),
            P.Config("compiled -c", compiled=True, jobs=2, transform=t),
            P.Config("compiled -C", args=["-C"], compiled=True, jobs=2, transform=t)]


def main(pid, tier, seed, replay):
    return P.standard_check(pid, LEVEL, tier, seed, configs, 10, 300, features, proof_pid="C02", rule=
        "generated programs (all index signatures over signed/unsigned/symbol columns, aggregates, records, sentinel values) x "
        "{interpreter, -c, -C}; non-trivial = distinct program with a non-empty output; plus the volume family (10^4..10^5 tuples, python expectation) "
        "compiled and interpreted", proof=True, workers=16,
        post=V.post_step("c02vol", 2, 20, [("interpreter -j2", dict(jobs=2), False), ("compiled -j4", dict(jobs=4, compiled=True), False)]),
        extra_tb=["g++ 12 and the OpenMP runtime compile and run the synthesised C++"])
