"""C02 -- Compiled programs agree with the interpreter (and with the stratified least model).
Every generated program is run by the interpreter, as a single-file compiled executable (-c) and as a
multi-file one (-C); all three must equal the oracle. The synthesiser's C++ emission is not modelled."""
import pipeline as P

LEVEL = "translation_validation"


def features(r):
    return P.random_features(r, always=["sentinels"] if r.chance(1, 2) else [])


def configs(p):
    t = lambda q: q.render_dl()
    return [P.Config("interpreter", jobs=1),
            P.Config("compiled -c", compiled=True, jobs=2, transform=t),
            P.Config("compiled -C", args=["-C"], compiled=True, jobs=2, transform=t)]


def main(pid, tier, seed, replay):
    return P.standard_check(pid, LEVEL, tier, seed, configs, 10, 300, features, proof_pid="C02", rule=
        "generated programs (all index signatures over signed/unsigned/symbol columns, aggregates, records, sentinel values) x "
        "{interpreter, -c, -C}; non-trivial = distinct program with a non-empty output", proof=True, workers=16,
        extra_tb=["g++ 12 and the OpenMP runtime compile and run the synthesised C++"])
