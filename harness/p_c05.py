"""C05 -- Magic-set transformation preserves results.
tie: --magic-transform=* , random subsets of relations, magic/no_magic qualifiers; all equal the oracle."""
import pipeline as P

LEVEL = "translation_validation"


def features(r):
    return P.random_features(r, always=["hidden", "cmp"])


def qual_variant(marks):
    def t(p):
        import copy
        q = copy.deepcopy(p)
        for r in q.rels:
            if r.name in marks:
                r.quals = [marks[r.name]]
        return q.render_dl()
    return t


def make_configs(rng):
    def configs(p):
        r = rng.fork(P.prog_hash(p))
        idb = [x.name for x in p.rels if x.kind == "idb"]
        cs = [P.Config("no magic"), P.Config("--magic-transform=*", args=["--magic-transform=*"])]
        for k in range(3):
            sub = [n for n in idb if r.chance(1, 2)]
            if sub:
                cs.append(P.Config("--magic-transform=" + ",".join(sub), args=["--magic-transform=" + ",".join(sub)]))
        ex = [n for n in idb if r.chance(1, 3)]
        if ex:
            cs.append(P.Config("magic * exclude " + ",".join(ex), args=["--magic-transform=*", "--magic-transform-exclude=" + ",".join(ex)]))
        marks = {n: r.choice(["magic", "no_magic"]) for n in idb if r.chance(1, 2)}
        if marks:
            cs.append(P.Config("qualifiers " + ",".join("%s=%s" % kv for kv in sorted(marks.items())), transform=qual_variant(marks)))
        return cs
    return configs


def main(pid, tier, seed, replay):
    import common as C
    return P.standard_check(pid, LEVEL, tier, seed, make_configs(C.SplitMix64(seed)), 30, 500, features, proof_pid="C05", rule=
        "generated programs (negation, aggregates, records, constraints binding output columns) x {no magic, all relations, 3 random subsets, "
        "exclusion list, magic/no_magic qualifiers}; non-trivial = distinct program with non-empty output")
