"""Shared driver for the pipeline properties: generated programs are evaluated by the extracted
Coq oracle (stratified least model, DatalogDefs.run_program) and by the real Souffle under a set of
configurations; every configuration must produce exactly the oracle's output relations."""
import copy
import hashlib
import os

import common as C
import dl as D
import gen as G


class Config:
    def __init__(self, name, args=(), env=None, jobs=1, transform=None, compiled=False, outs=None):
        self.name, self.args, self.env, self.jobs = name, list(args), env, jobs
        self.transform = transform     # Prog -> (dl_text) or None for the default rendering
        self.compiled = compiled


def prog_hash(p):
    return hashlib.sha256((p.render_dl() + "".join(p.facts_text(r.name) for r in p.rels if r.kind == "edb")).encode("latin-1")).hexdigest()[:16]


def run_config(p, d, cfg, timeout=180):
    dlname = "p.dl"
    if cfg.transform is not None:
        dlname = "p_%s.dl" % cfg.name.replace("/", "_").replace(" ", "_").replace("=", "_").replace(",", "_")[:60]
        with open(os.path.join(d, dlname), "w", encoding="latin-1") as fh:
            fh.write(cfg.transform(p))
    args = list(cfg.args)
    pre = getattr(cfg, "pre", None)
    if pre is not None:
        extra = pre(p, d, dlname)
        if extra is None:
            return 1, "Error: pre-step of configuration %s failed" % cfg.name, {}
        args += extra
    if cfg.compiled:
        if "-C" not in args:
            args = ["-c"] + args
        timeout = max(timeout, 900)
    res = None
    for attempt in (1, 3):          # a run that hits the time limit is repeated once with three times the limit
        res = D.run_souffle(p, d, args=args, outsub="out_" + hashlib.md5(cfg.name.encode()).hexdigest()[:8], timeout=timeout * attempt,
                            env=cfg.env, dl=dlname, jobs=cfg.jobs, prefix=getattr(cfg, "out_prefix", ""))
        if res[0] != -9:
            break
    return res


def shrink(p, fails, budget=60):
    """greedy delta debugging over clauses then facts; `fails(prog)` must stay true"""
    p = copy.deepcopy(p)
    steps = 0
    changed = True
    while changed and steps < budget:
        changed = False
        for i in range(len(p.clauses) - 1, -1, -1):
            if steps >= budget:
                break
            q = copy.deepcopy(p)
            del q.clauses[i]
            steps += 1
            try:
                if fails(q):
                    p, changed = q, True
            except Exception:
                pass
        for name in list(p.facts):
            rows = p.facts[name]
            i = len(rows) - 1
            while i >= 0 and steps < budget:
                q = copy.deepcopy(p)
                del q.facts[name][i]
                steps += 1
                try:
                    if fails(q):
                        p, changed = q, True
                except Exception:
                    pass
                i -= 1
    return p


def replay_obj(p, cfg, extra=None):
    o = {"program": p.render_dl(), "facts": {r.name: p.facts_text(r.name) for r in p.rels if r.kind == "edb"},
         "oracle_input": p.render_sexpr(), "config": {"name": cfg.name, "args": cfg.args, "env": cfg.env, "jobs": cfg.jobs, "compiled": cfg.compiled} if cfg else None,
         "features": sorted(p.features)}
    if cfg is not None and cfg.transform is not None:
        o["program_as_run"] = cfg.transform(p)
    if extra:
        o.update(extra)
    return o


def differential(chk, programs, configs_for, key_for=None, nontrivial=None, workers=None, stats=None, shrink_budget=40):
    """programs: list of Prog. configs_for(p) -> list of Config. For every program the oracle result is
    computed once; each configuration's outputs must equal it. Returns statistics dict."""
    stats = stats if stats is not None else {}
    stats.update({"programs": len(programs), "oracle_ok": 0, "oracle_undef": 0, "oracle_other": 0, "runs": 0,
                  "souffle_rejected": 0, "mismatches": 0, "features": {}, "nonempty_outputs": 0, "max_rounds": 0})
    oracle = D.oracle_batch(programs)
    jobs = []
    for i, (p, o) in enumerate(zip(programs, oracle)):
        if o[0] != "ok":
            stats["oracle_undef" if o[0] == "undef" else "oracle_other"] += 1
            if o[0] in ("stuck", "parse-error"):
                chk.notes.append("oracle %s on generated program %d (generator/oracle glue): %s" % (o[0], i, o[1][:200]))
            continue
        stats["oracle_ok"] += 1
        stats["theorem_hypotheses_hold"] = stats.get("theorem_hypotheses_hold", 0) + (1 if len(o) > 3 and o[3] else 0)
        for f in p.features:
            stats["features"][f] = stats["features"].get(f, 0) + 1
        if any(o[1].values()):
            stats["nonempty_outputs"] += 1
        stats["max_rounds"] = max([stats["max_rounds"]] + o[2])
        seen_names = set()
        for cfg in configs_for(p):
            if cfg.name in seen_names:      # two random subsets can coincide; one run (and one output directory) per name
                continue
            seen_names.add(cfg.name)
            jobs.append((i, cfg))

    def one(job):
        i, cfg = job
        d = os.path.join(C.WORK, "cases", chk.pid, str(i))
        if not os.path.exists(os.path.join(d, "p.dl")):
            D.write_case(programs[i], d)
        return run_config(programs[i], d, cfg)
    import shutil
    shutil.rmtree(os.path.join(C.WORK, "cases", chk.pid), ignore_errors=True)
    for i, p in enumerate(programs):
        D.write_case(p, os.path.join(C.WORK, "cases", chk.pid, str(i)))
    results = C.parallel_map(one, jobs, workers=workers)
    distinct = set()
    for (i, cfg), (rc, se, outs) in zip(jobs, results):
        p, o = programs[i], oracle[i]
        stats["runs"] += 1
        if rc != 0:
            stats["souffle_rejected"] += 1
            if rc in (1,) and "Error" in se and not cfg.compiled:
                # a generated program the front end rejects is a generator defect or an accept/reject issue (C13);
                # it is reported by the properties that own the verdict, and noted here
                chk.notes.append("config %s: souffle rejected generated program %d: %s" % (cfg.name, i, se.strip().splitlines()[-1][:160] if se.strip() else ""))
                continue
            chk.finding(key_for(p, cfg, {"failed": rc, "stderr": se}) if key_for else None,
                        "souffle failed (status %s) under configuration %s: %s" % (rc, cfg.name, se[-300:]), replay_obj(p, cfg))
            continue
        bad = D.diff_outputs(o[1], outs)
        if nontrivial is None or nontrivial(p, o):
            distinct.add(prog_hash(p))
        if bad:
            stats["mismatches"] += 1
            key = key_for(p, cfg, bad) if key_for else None
            if key and chk.known_finding_key(key):
                chk.finding(key, "", None)
                continue

            def fails(q, cfg=cfg):
                oq = D.oracle_batch([q])[0]
                if oq[0] != "ok":
                    return False
                dq = C.fresh_dir("shrink", chk.pid)
                D.write_case(q, dq)
                rcq, _, outq = run_config(q, dq, cfg)
                return rcq == 0 and bool(D.diff_outputs(oq[1], outq))
            # shrinking re-runs souffle per step: only the first two failures are shrunk, compiled ones with a small budget
            nshrunk = stats["shrunk"] = stats.get("shrunk", 0) + 1
            budget = 0 if nshrunk > 2 else (6 if cfg.compiled else shrink_budget)
            small = shrink(p, fails, budget=budget) if budget else p
            chk.finding(key, "output differs from the stratified least model under configuration '%s': %s" % (cfg.name, bad[:2]),
                        replay_obj(small, cfg, {"diff(rel, missing, unexpected, duplicated)": bad, "unshrunk_program": p.render_dl()}))
        elif len(chk.samples) < 4 and any(o[1].values()):
            chk.sample({"program": p.render_dl()[:1500], "config": cfg.name, "rows_per_output": {k: len(v) for k, v in o[1].items()}, "oracle_rounds_per_stratum": o[2]})
    stats["distinct_nontrivial"] = len(distinct)
    return stats, oracle


def gen_programs(rng, n, features_fn=None, size=1.0):
    progs = []
    for i in range(n):
        r = rng.fork("prog%d" % i)
        feats = features_fn(r) if features_fn else None
        progs.append(G.gen_program(r, feats, size))
    return progs


BASE_FEATURES = ["neg", "cmp", "arith", "bits", "strings", "records", "adts", "agg", "range", "recursion", "mutual",
                 "unsigned", "symbols", "multi_rec_atoms", "sentinels"]


def random_features(r, always=(), never=()):
    return sorted(set([f for f in BASE_FEATURES if r.chance(1, 2) and f not in never]) | set(always))


PIPE_TB = ["Coq 8.16.1 kernel; Print Assumptions of every theorem of the property's Properties_*.v file",
           "the oracle: extracted DatalogDefs.run_program (ExtrOcamlBasic; ocaml/datalog_driver.ml S-expression reader; zarith text<->Z)",
           "harness/gen.py double rendering of one AST (Souffle text / S-expression), harness/dl.py canonicalisation (sorted text rows)",
           "modelled, not verified: all of /repo/src that takes part in the run (front end, ast2ram, RAM passes, interpreter / synthesiser + g++): tied by this correspondence only"]


def standard_check(pid, level, tier, seed, configs_for, n_quick, n_thorough, features_fn, rule, proof=True,
                   nontrivial=None, key_for=None, post=None, workers=None, size=1.0, extra_tb=(), mutate=None, proof_pid=None, extra_programs=None):
    chk = C.Check(pid, level, tier, seed)
    C.build_souffle()
    if proof:
        chk.proof_stage(proof_pid)
    n = n_quick if tier == "quick" else n_thorough
    progs = gen_programs(chk.rng.fork(pid), n, features_fn, size)
    if mutate:
        progs = [mutate(p, chk.rng.fork("mut%d" % i)) for i, p in enumerate(progs)]
    if extra_programs:
        progs = progs + list(extra_programs(chk.rng.fork("extra"), tier))
    stats, oracle = differential(chk, progs, configs_for, key_for=key_for, workers=workers,
                                 nontrivial=nontrivial or (lambda p, o: any(o[1].values())))
    chk.cov.update({"evaluations": stats["runs"], "distinct_nontrivial": stats["distinct_nontrivial"], "rule": rule,
                    "traces_validated_against_impl": stats["runs"], "programs": stats["oracle_ok"],
                    "disagreements_checked": stats["mismatches"], "stats": stats})
    if post:
        post(chk, progs, oracle, stats)
    chk.assumptions = ["generator's double rendering (text / S-expression) of one AST",
                       "inputs whose evaluation leaves the defined value domain are discarded (the oracle reports them)"]
    return chk.finish(PIPE_TB + list(extra_tb))
