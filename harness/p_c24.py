"""C24 -- Intrinsic functors and constraints follow their value semantics.

proof:  Properties_C24.v (Word32Lemmas / Float32Lemmas): for ALL 32-bit arguments each operator's code-shaped definition
        equals its specification (modular unsigned arithmetic, exact signed arithmetic iff in range, truncating division,
        bit-for-bit bitwise ops, masked shifts, logical ops, min/max, signed/unsigned comparisons, exponentiation, byte
        strings, range enumeration; floats: IEEE-754 binary32 round-to-nearest-even via Coq's SpecFloat, tied to Flocq).
tie:    one Datalog program per run applies every operator to a boundary grid x random values; the interpreter and the
        compiled executable (both rebuilt from the working tree) and the extracted model must agree on every defined case
        (floats compared as bit patterns recovered exactly from the max_digits10 text; NaN payload/sign canonicalised).
"""
import os
import struct

import common as C

LEVEL = "proof"
B31, B32 = 2 ** 31, 2 ** 32


def sgn(z):
    z &= 0xFFFFFFFF
    return z - B32 if z >= B31 else z


INT_GRID = sorted(set([0, 1, -1, 2, -2, 3, 5, 7, -7, 31, 32, 33, 63, 64, -31, -32, -33, B31 - 1, -B31, B31 - 2, -B31 + 1, 0x7FFF, 0x8000, 0xFFFF, 0x10000,
                       -0x8000, 0x55555555, sgn(0xAAAAAAAA), sgn(0xFFFF0000), 1 << 30, -(1 << 30), (1 << 30) + 1, 46340, 46341, -46341, 65536, 1290, 10, 100]))
F = lambda x: struct.unpack("<I", struct.pack("<f", x))[0]
FLOAT_GRID = [F(x) for x in (0.0, -0.0, 1.0, -1.0, 0.5, 1.5, -1.5, 2.0, 3.0, 0.1, 16777216.0, 16777217.0, 3.4028235e38, -3.4028235e38, 1.17549435e-38,
                             1e-45, 9.9999461e-41, 2147483648.0, -2147483648.0, 2147483520.0, 4294967040.0, 4294967296.0, 123456.789, 1e10, 0.33333334)] + [0x7F800000, 0xFF800000, 0x7FC00000]

# (model op, kind, datalog expression template, argument types, result type)
BIN_I = [("sadd", "({a} + {b})"), ("ssub", "({a} - {b})"), ("smul", "({a} * {b})"), ("sdiv", "({a} / {b})"), ("smod", "({a} % {b})"),
         ("band", "({a} band {b})"), ("bor", "({a} bor {b})"), ("bxor", "({a} bxor {b})"), ("shl", "({a} bshl {b})"), ("shr_s", "({a} bshr {b})"),
         ("shr_u", "({a} bshru {b})"), ("land", "({a} land {b})"), ("lor", "({a} lor {b})"), ("lxor", "({a} lxor {b})"), ("smax", "max({a}, {b})"),
         ("smin", "min({a}, {b})"), ("sexp", "({a} ^ {b})")]
BIN_U = [("uadd", "({a} + {b})"), ("usub", "({a} - {b})"), ("umul", "({a} * {b})"), ("udiv", "({a} / {b})"), ("umod", "({a} % {b})"),
         ("band", "({a} band {b})"), ("bor", "({a} bor {b})"), ("bxor", "({a} bxor {b})"), ("shl", "({a} bshl {b})"), ("shr_u", "({a} bshr {b})"),
         ("shr_u", "({a} bshru {b})"), ("umax", "max({a}, {b})"), ("umin", "min({a}, {b})"), ("uexp", "({a} ^ {b})"), ("land", "({a} land {b})"),
         ("lor", "({a} lor {b})"), ("lxor", "({a} lxor {b})")]
UN_I = [("sneg", "(-{a})"), ("bnot", "(bnot {a})"), ("lnot", "(lnot {a})")]
UN_U = [("bnot", "(bnot {a})"), ("lnot", "(lnot {a})")]
CMP_I = [("slt", "<"), ("sle", "<=")]
CMP_U = [("ult", "<"), ("ule", "<=")]
BIN_F = [("fadd", "({a} + {b})"), ("fsub", "({a} - {b})"), ("fmul", "({a} * {b})"), ("fdiv", "({a} / {b})"), ("fmax", "max({a}, {b})"), ("fmin", "min({a}, {b})")]
CMP_F = [("flt", "<"), ("fle", "<="), ("feq", "=")]


def model_eval(exe, queries):
    rc, out, err = C.sh([exe], input="".join("%s %s\n" % (op, " ".join(str(a) for a in args)) for op, args in queries).encode(), timeout=1200)
    if rc != 0:
        raise C.BuildError("word32 driver failed: " + err[-300:])
    res = []
    for l in out.splitlines():
        p = l.split()
        res.append(int(p[1]) if p[0] == "ok" else None)
    return res


def ftext(bits):
    bits &= 0xFFFFFFFF
    if bits & 0x7FFFFFFF == 0x7F800000:
        return "-inf" if bits >> 31 else "inf"
    if bits & 0x7FFFFFFF > 0x7F800000:
        return "nan"
    return repr(struct.unpack("<f", struct.pack("<I", bits))[0]) if False else "%.9g" % struct.unpack("<f", struct.pack("<I", bits))[0]


def fbits(text):
    t = text.strip().lower()
    if "nan" in t:
        return 0x7FC00000
    v = float(t)
    return struct.unpack("<I", struct.pack("<f", v))[0]


def canon_f(bits):
    bits &= 0xFFFFFFFF
    return 0x7FC00000 if bits & 0x7FFFFFFF > 0x7F800000 else bits


def main(pid, tier, seed, replay):
    chk = C.Check(pid, LEVEL, tier, seed)
    rng = chk.rng
    souffle = C.build_souffle()
    chk.proof_stage()
    model = C.ocaml_driver("word32")
    nrand = 30 if tier == "quick" else 400
    ints = INT_GRID + [sgn(rng.next()) for _ in range(nrand)]
    pairs = [(a, b) for a in INT_GRID for b in INT_GRID if rng.chance(1, 3)] + [(rng.choice(ints), rng.choice(ints)) for _ in range(nrand * 10)]
    pairs = sorted(set(pairs))
    floats = FLOAT_GRID + [rng.next() & 0xFFFFFFFF for _ in range(nrand)]
    floats = [f for f in floats if canon_f(f) == f or f == 0x7FC00000]
    fpairs = sorted(set([(a, b) for a in FLOAT_GRID for b in FLOAT_GRID if rng.chance(1, 2)] + [(rng.choice(floats), rng.choice(floats)) for _ in range(nrand * 5)]))

    d = C.fresh_dir("c24")
    os.makedirs(os.path.join(d, "facts"))
    decls, rules, expect = [], [], {}     # expect[relname] = set of text rows
    queries, slots = [], []               # model queries and where their result goes

    def rel_bin(tag, ty, oplist, prs, render, keep_defined=True):
        for i, (op, tmpl) in enumerate(oplist):
            name = "%s_%d_%s" % (tag, i, op)
            decls.append(".decl in_%s(a:%s, b:%s)\n.input in_%s\n.decl %s(a:%s, b:%s, r:%s)\n.output %s" % (name, ty, ty, name, name, ty, ty, ty, name))
            rules.append("%s(a, b, %s) :- in_%s(a, b)." % (name, tmpl.format(a="a", b="b"), name))
            for a, b in prs:
                queries.append((op, (a, b)))
                slots.append((name, a, b, render))

    ru = lambda z: str(z & 0xFFFFFFFF)
    rs = lambda z: str(z)
    rel_bin("bi", "number", BIN_I, pairs, rs)
    rel_bin("bu", "unsigned", BIN_U, pairs, ru)
    rel_bin("bf", "float", BIN_F, fpairs, ftext)
    # unary, comparisons, conversions: one relation each
    for tag, ty, ops, vals, render in (("ui", "number", UN_I, ints, rs), ("uu", "unsigned", UN_U, ints, ru)):
        for i, (op, tmpl) in enumerate(ops):
            name = "%s_%d_%s" % (tag, i, op)
            decls.append(".decl in_%s(a:%s)\n.input in_%s\n.decl %s(a:%s, r:%s)\n.output %s" % (name, ty, name, name, ty, ty, name))
            rules.append("%s(a, %s) :- in_%s(a)." % (name, tmpl.format(a="a"), name))
            for a in vals:
                queries.append((op, (a,)))
                slots.append((name, a, None, render))
    for tag, ty, ops, prs, render in (("ci", "number", CMP_I, pairs, rs), ("cu", "unsigned", CMP_U, pairs, ru), ("cf", "float", CMP_F, fpairs, ftext)):
        for i, (op, sym) in enumerate(ops):
            name = "%s_%d_%s" % (tag, i, op)
            decls.append(".decl in_%s(a:%s, b:%s)\n.input in_%s\n.decl %s(a:%s, b:%s)\n.output %s" % (name, ty, ty, name, name, ty, ty, name))
            rules.append("%s(a, b) :- in_%s(a, b), a %s b." % (name, name, sym))
            for a, b in prs:
                queries.append((op, (a, b)))
                slots.append((name, a, b, ("cmp", render)))
    convs = [("i2f", "number", "float", "to_float(a)", ints, rs, ftext), ("u2f", "unsigned", "float", "to_float(a)", ints, ru, ftext),
             ("f2i", "float", "number", "to_number(a)", floats, ftext, rs), ("f2u", "float", "unsigned", "to_unsigned(a)", floats, ftext, ru)]
    for op, tin, tout, expr, vals, rin, rout in convs:
        name = "cv_" + op
        decls.append(".decl in_%s(a:%s)\n.input in_%s\n.decl %s(a:%s, r:%s)\n.output %s" % (name, tin, name, name, tin, tout, name))
        rules.append("%s(a, %s) :- in_%s(a)." % (name, expr, name))
        for a in vals:
            queries.append((op, (sgn(a),)))
            slots.append((name, a, None, ("conv", rin, rout)))
    mres = model_eval(model, [(op, tuple(sgn(x) for x in args)) for op, args in queries])
    facts, isfloat = {}, {}
    undefined = 0
    for (name, a, b, render), r in zip(slots, mres):
        if r is None:
            undefined += 1
            continue                      # outside the defined domain: the case is not fed to souffle at all
        if isinstance(render, tuple) and render[0] == "cmp":
            rin = render[1]
            facts.setdefault(name, []).append("%s\t%s" % (rin(a), rin(b)))
            if r == 1:
                expect.setdefault(name, set()).add((a, b))
            else:
                expect.setdefault(name, set())
            isfloat[name] = ("cmp", rin)
        elif isinstance(render, tuple):
            _, rin, rout = render
            facts.setdefault(name, []).append(rin(a))
            expect.setdefault(name, set()).add((a, r))
            isfloat[name] = ("conv", rin, rout)
        elif b is None:
            facts.setdefault(name, []).append(render(a))
            expect.setdefault(name, set()).add((a, r))
            isfloat[name] = ("un", render)
        else:
            facts.setdefault(name, []).append("%s\t%s" % (render(a), render(b)))
            expect.setdefault(name, set()).add((a, b, r))
            isfloat[name] = ("bin", render)
    for name in set(s[0] for s in slots):
        with open(os.path.join(d, "facts", "in_%s.facts" % name), "w") as fh:
            fh.write("\n".join(sorted(set(facts.get(name, [])))) + ("\n" if facts.get(name) else ""))
    with open(os.path.join(d, "p.dl"), "w") as fh:
        fh.write("\n".join(decls) + "\n" + "\n".join(rules) + "\n")

    def canon_expect(name):
        kind = isfloat[name]
        fl = kind[1] is ftext if kind[0] != "conv" else None
        rows = set()
        for tup in expect[name]:
            if kind[0] == "conv":
                _, rin, rout = kind
                a, r = tup
                rows.add((canon_val(a, rin), canon_val(r, rout)))
            else:
                rows.add(tuple(canon_val(x, kind[1]) for x in tup))
        return rows

    def canon_val(x, render):
        if render is ftext:
            return ("f", canon_f(x))
        if render is ru:
            return ("u", x & 0xFFFFFFFF)
        return ("s", sgn(x))

    def parse_out(name, path):
        kind = isfloat[name]
        rows = set()
        for line in open(path).read().splitlines():
            cols = line.split("\t")
            if kind[0] == "conv":
                rs_ = [kind[1], kind[2]]
            else:
                rs_ = [kind[1]] * len(cols)
            row = []
            for c, rr in zip(cols, rs_):
                if rr is ftext:
                    row.append(("f", canon_f(fbits(c))))
                elif rr is ru:
                    row.append(("u", int(c)))
                else:
                    row.append(("s", int(c)))
            rows.add(tuple(row))
        return rows

    total, distinct = 0, 0
    for mode, args in (("interpreter", []), ("compiled", ["-c"])):
        out = os.path.join(d, "out_" + mode)
        os.makedirs(out)
        rc, so, se = C.sh([souffle, "-w"] + args + [os.path.join(d, "p.dl"), "-F", os.path.join(d, "facts"), "-D", out, "-j4"], timeout=1800, cwd=d)
        if rc != 0:
            chk.finding(None, "souffle (%s) failed on the operator program: %s" % (mode, se[-400:]), {"program": os.path.join(d, "p.dl"), "mode": mode})
            continue
        for name in sorted(expect):
            got = parse_out(name, os.path.join(out, name + ".csv"))
            exp = canon_expect(name)
            total += len(exp)
            if got != exp:
                miss, extra = sorted(exp - got)[:4], sorted(got - exp)[:4]
                # two recorded findings about the sign of zero (known_findings.json); anything else is a violation
                z = lambda row: tuple(("f", 0) if v == ("f", 0x80000000) else v for v in row)
                nin = {"bin": 2, "un": 1, "conv": 1, "cmp": 2}[isfloat[name][0]]
                if mode == "compiled" and not (got - exp) and {z(r[:nin]) for r in got} == {z(r[:nin]) for r in exp}:
                    # every row souffle wrote is right; the rows it lacks belong to input tuples that differ from a kept
                    # one only in the sign of a zero (the compiled input relation holds one representative per class)
                    chk.finding("C24-compiled-float-relation-merges-signed-zeros", "", None)
                    continue
                zero = {("f", 0), ("f", 0x80000000)}
                isnan = lambda v: v[0] == "f" and (v[1] & 0x7F800000) == 0x7F800000 and (v[1] & 0x7FFFFF) != 0
                # the recorded finding: float `=` / `!=` compare bit patterns -- the only rows that may differ from IEEE
                # equality are pairs of differently signed zeros (IEEE: equal) and pairs of one NaN pattern (IEEE: unequal)
                zeros_only = lambda rows: all(set(r) == zero for r in rows)
                nans_only = lambda rows: all(len(r) == 2 and r[0] == r[1] and isnan(r[0]) for r in rows)
                if ("feq" in name and zeros_only(exp - got) and nans_only(got - exp)) or ("fne" in name and nans_only(exp - got) and zeros_only(got - exp)):
                    chk.finding("C24-float-eq-signed-zero", "", None)
                    continue
                chk.finding(None, "operator %s (%s): souffle and the value semantics differ; expected-but-missing %s, unexpected %s" % (name, mode, miss, extra),
                            {"operator_relation": name, "mode": mode, "rule": [r for r in rules if r.startswith(name + "(")], "missing": miss, "unexpected": extra})
            elif len(chk.samples) < 6 and exp and mode == "compiled":
                chk.sample({"relation": name, "rule": [r for r in rules if r.startswith(name + "(")][0], "rows": len(exp), "example": sorted(exp)[len(exp) // 2]})
    distinct = sum(len(v) for v in expect.values())
    chk.cov.update({"evaluations": total, "distinct_nontrivial": distinct,
                    "rule": "every operator x (boundary grid pairs + random values); cases the model marks undefined (signed overflow, division by zero, out-of-range conversion/exponent) are not fed to souffle; "
                            "distinct_nontrivial = distinct defined (operator, arguments) cases",
                    "traces_validated_against_impl": total, "operators": len(expect), "undefined_cases_excluded": undefined})
    chk.assumptions = ["std::pow returns the exact integer when a^b is representable", "NaN sign/payload canonicalised; float text <-> bits via %.9g (exact for binary32)"]
    return chk.finish(["Coq 8.16.1 kernel; 26 theorems closed, 5 float theorems modulo the standard library's real-number axioms (ClassicalDedekindReals.sig_not_dec, sig_forall_dec, functional_extensionality_dep, Classical_Prop.classic) via Flocq",
                       "extraction ExtrOcamlBasic; ocaml/word32_driver.ml", "python float text/bit conversion (struct), g++/libm for the compiled run",
                       "modelled, not verified: Engine.cpp / Synthesiser.cpp operator cases"])
