"""C31 -- Symbol and record interning is a bijection under concurrency.

proof:  Properties_C31.v (HashMapDefs/Lemmas, FlyweightDefs/Lemmas): model of ConcurrentInsertOnlyHashMap::get at the
        granularity of its atomic steps (lane lock, bucket-head load, CAS, size increment, the grow protocol with
        BeforeLockAll / lockAllBut / rehash) for any number of lanes, keys and steps: no key is published twice, every
        published node sits in its hash bucket, all gets of equal keys return one node and different keys different
        nodes, exactly one get per key reports `inserted` at quiescence, growth preserves the published set and happens
        only while every other lane is outside its load..CAS window, Size counts the published nodes; the flyweight on
        top: injective indices, fetch inverts them, reserved index 0 never handed out, iteration lists each assigned
        slot once, growth preserves; + exhaustive explorations of small contended instances.
tie:    step-level for the hash map: the REAL map (hook H4) under cpp/vsched.h, same schedule replayed in the extracted
        model (real prime growth policy): responses (up to node renaming), bucket count, every bucket chain and Size
        compared.  API-level for SymbolTableImpl / RecordTable: concurrent encode/pack histories with duplicates and
        growth-triggering sizes on 2-8 OpenMP lanes, with schedule perturbation (hook H6); the property predicate itself
        (bijection, decode/unpack inverse, nil never returned, iteration lists each symbol once) is evaluated.
"""
import os

import common as C

LEVEL = "proof"


def fields(line):
    out = {}
    for part in line.split(";"):
        toks = part.split()
        if toks:
            out[toks[0]] = toks[1:]
    return out


def rename(resp):
    """canonical node numbering by first appearance"""
    ids, out = {}, []
    for r in resp:
        t, k, n, ins = r.split(":")
        ids.setdefault(n, len(ids))
        out.append("%s:%s:%d:%s" % (t, k, ids[n], ins))
    return out


def impl_predicate(keys, f):
    resp = f.get("resp", [])
    node_of, key_of, ins = {}, {}, {}
    for r in resp:
        t, k, n, i = r.split(":")
        if node_of.setdefault(k, n) != n:
            return "two gets of key %s returned different nodes" % k
        if key_of.setdefault(n, k) != k:
            return "keys %s and %s share one node" % (key_of[n], k)
        ins[k] = ins.get(k, 0) + (1 if i == "t" else 0)
    if "STUCK" in f:
        return "a get did not finish (deadlock or livelock) under the schedule"
    for k, c in ins.items():
        if c != 1:
            return "key %s was reported inserted %d times" % (k, c)
    chain_keys = []
    for ch in f.get("chains", []):
        b, ks = ch.split(":")
        chain_keys += ks.split(",")
    if sorted(chain_keys) != sorted(set(k for ks in keys for k in map(str, ks))):
        return "the buckets do not hold exactly the requested keys once each: %s" % sorted(chain_keys)
    if int(f["size"][0]) != len(chain_keys):
        return "Size %s differs from the number of stored keys %d" % (f["size"][0], len(chain_keys))
    return None


def main(pid, tier, seed, replay):
    chk = C.Check(pid, LEVEL, tier, seed)
    rng = chk.rng
    harness = C.compile_cpp(os.path.join(C.CPP, "hashmap_harness.cpp"), os.path.join(C.WORK, "bin", "hashmap_harness"))
    intern = C.compile_cpp(os.path.join(C.CPP, "intern_harness.cpp"), os.path.join(C.WORK, "bin", "intern_harness"))
    chk.proof_stage()
    model = C.ocaml_driver("hashmap")
    n_cases = 1500 if tier == "quick" else 30000
    cases = []
    for i in range(n_cases):
        r = rng.fork("case%d" % i)
        k = r.range(2, 4)
        hashmod = r.choice([1, 2, 4, 0, 0, 7])
        grow = r.chance(1, 3)
        universe = list(range(1, (40 if grow else 9)))
        keys = [[r.choice(universe) for _ in range(r.range(8, 14) if grow else r.range(1, 4))] for _ in range(k)]
        cases.append((hashmod, keys, "random %d %d" % (r.next() % (1 << 31), r.choice([20, 50, 80]))))
    line = lambda c, sched: "%s | %s | %s" % (c[0], " | ".join(" ".join(map(str, ks)) for ks in c[1]), sched)
    rc, out, err = C.sh([harness], input="".join("13 " + line(c, c[2]) + "\n" for c in cases).encode(), timeout=3000)
    ilines = out.splitlines()
    if rc != 0 or len(ilines) != len(cases):
        chk.violation("hash-map harness died (rc=%s) after %d of %d cases: %s" % (rc, len(ilines), len(cases), err[-300:]),
                      {"case": "13 " + line(cases[min(len(ilines), len(cases) - 1)], cases[min(len(ilines), len(cases) - 1)][2])})
    imp = [fields(l) for l in ilines]
    minput = "".join("13 13 %s prime | %s | %s\n" % (c[0], " | ".join(" ".join(map(str, ks)) for ks in c[1]), " ".join(f.get("sched", []))) for c, f in zip(cases, imp))
    rc, mout, err = C.sh([model], input=minput.encode(), timeout=3000)
    mlines = mout.splitlines()
    distinct, steps, growths, casretry = set(), 0, 0, 0
    for c, f, ml in zip(cases, imp, mlines):
        m = fields(ml)
        sched = f.get("sched", [])
        steps += len(sched)
        grew = f.get("buckets", ["13"])[0] != "13"
        growths += 1 if grew else 0
        rep = {"case": "13 " + line(c, " ".join(sched)), "impl": {k: " ".join(v) for k, v in f.items() if k != "sched"},
               "model": {k: " ".join(v) for k, v in m.items() if k != "steps"}}
        bad = impl_predicate(c[1], f)
        if bad:
            chk.finding(None, "C31 fails on the real hash map: " + bad, rep)
        else:
            same = (rename(f.get("resp", [])) == rename(m.get("resp", [])) and f.get("buckets") == m.get("buckets") and f.get("size") == m.get("size"))
            # chains: the model prints node ids, the harness keys; map model ids to keys through the responses
            if same:
                id2key = {}
                for r in m.get("resp", []):
                    t, k, n, i = r.split(":")
                    id2key[n] = k
                mch = sorted("%s:%s" % (ch.split(":")[0], ",".join(id2key.get(x, "?" + x) for x in ch.split(":")[1].split(","))) for ch in m.get("chains", []))
                same = mch == sorted(f.get("chains", []))
            if ml.startswith("err") or not same or m.get("mon") != ["ok"]:
                chk.violation("real hash map and model disagree under the same schedule (property predicate holds on the real results)",
                              dict(rep, correspondence="HashMapDefs.run vs ConcurrentInsertOnlyHashMap under cpp/vsched.h"), no_input=True)
        if len(set(sched)) > 1:
            distinct.add(("13 " + line(c, " ".join(sched))))
        if len(chk.samples) < 3 and grew:
            chk.sample(rep)
    # API level: symbols and records
    api = []
    for i in range(12 if tier == "quick" else 200):
        r = rng.fork("api%d" % i)
        api.append((r.range(2, 8), r.next() % 100000, r.choice([40, 3000, 70000]), r.choice([2000, 20000])))
    api_bad = 0
    for pert in (None, "1", "2"):
        env = {"SOUFFLE_VERIF_PERTURB": pert} if pert else None
        rc, out, err = C.sh([intern], input="".join("%d %d %d %d\n" % a for a in api).encode(), timeout=3000, env=env)
        lines = out.splitlines()
        for a, l in zip(api, lines):
            if not l.startswith("ok"):
                api_bad += 1
                chk.finding(None, "C31 fails on SymbolTableImpl/RecordTable: %s" % l, {"threads,seed,distinct,ops": a, "perturb": pert})
        if rc != 0 or len(lines) != len(api):
            chk.finding(None, "interning harness crashed (rc=%s) after %d cases" % (rc, len(lines)), {"case": api[min(len(lines), len(api) - 1)], "perturb": pert})
    chk.cov.update({"evaluations": len(cases) + 3 * len(api), "distinct_nontrivial": len(distinct),
                    "rule": "hash map: 2-4 lanes, keys colliding by construction (hash = key mod 1/2/4/7 or identity), one third of the cases large enough to grow 13 -> 251 buckets, "
                            "seeded random schedules; non-trivial = distinct (history, executed schedule) with at least two lanes interleaved; API: 2-8 lanes x {40, 3000, 70000} distinct values x 3 perturbation settings",
                    "traces_validated_against_impl": len(mlines), "atomic_steps": steps, "histories_with_growth": growths, "api_histories": 3 * len(api)})
    chk.assumptions = ["sequentially consistent interleaving; std::mutex modelled as an atomic lock", "flyweight tied at API level only (its model treats the map lookup as one step)"]
    return chk.finish(["Coq 8.16.1 kernel; Properties_C31.v closed under the global context (vm_compute in the bounded theorems)",
                       "extraction ExtrOcamlBasic; ocaml/hashmap_driver.ml", "cpp/vsched.h, cpp/hashmap_harness.cpp (#define private public), cpp/intern_harness.cpp (evaluates the bijection predicate in C++)",
                       "hook H4 (hash map, lanes), hook H6 (perturbation)", "modelled: ConcurrentInsertOnlyHashMap::get + MutexConcurrentLanes, ConcurrentFlyweight (abstractly); weakFind, memory orders not modelled"])
