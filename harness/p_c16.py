"""C16 -- Component instantiation is equivalent to textual expansion.
tie: each generated flat program is wrapped into components in five ways (plain component, type parameter, inheritance
     with the rules split between base and derived component, an overridable relation whose base rules must disappear,
     two nested levels of instantiation); every instantiated relation must hold exactly the tuples the flat program's
     relation holds according to the proved oracle (names under the instance prefix)."""
import common as C
import pipeline as P

LEVEL = "translation_validation"


def features(r):
    return P.random_features(r, never=["hidden"])


def split_text(p):
    """(type decls, edb decl lines, idb decl lines [(rel, decl, output)], clause texts [(head rel, text)])"""
    types = p.ty_decl()
    edb, idb = [], []
    for r in p.rels:
        decl = ".decl %s(%s)" % (r.name, ", ".join("c%d:%s" % (i, t) for i, t in enumerate(r.types)))
        if r.kind == "edb":
            edb += [decl, ".input %s" % r.name]
        else:
            idb.append((r, decl))
    clauses = [(c[0], p.clause_text(c)) for c in p.clauses]
    return types, edb, idb, clauses


def plain(p):
    types, edb, idb, clauses = split_text(p)
    body = []
    for r, decl in idb:
        body += ["  " + decl] + (["  .output %s" % r.name] if r.output else [])
    body += ["  " + t for _, t in clauses]
    return "\n".join(types + edb + [".comp A {"] + body + ["}", ".init a = A"]) + "\n"


def typeparam(p):
    """the first `number` column of every IDB relation is typed by the component's type parameter"""
    types, edb, idb, clauses = split_text(p)
    body = []
    for r, _ in idb:
        cols, used = [], False
        for i, t in enumerate(r.types):
            if t == "number" and not used:
                cols.append("c%d:T" % i)
                used = True
            else:
                cols.append("c%d:%s" % (i, t))
        body += ["  .decl %s(%s)" % (r.name, ", ".join(cols))] + (["  .output %s" % r.name] if r.output else [])
    body += ["  " + t for _, t in clauses]
    return "\n".join(types + edb + [".comp A<T> {"] + body + ["}", ".init a = A<number>"]) + "\n"


def inherit(p, rng):
    types, edb, idb, clauses = split_text(p)
    base, derived = [], []
    for r, decl in idb:
        base += ["  " + decl] + (["  .output %s" % r.name] if r.output else [])
    for _, t in clauses:
        (base if rng.chance(1, 2) else derived).append("  " + t)
    return "\n".join(types + edb + [".comp B {"] + base + ["}", ".comp A : B {"] + derived + ["}", ".init a = A"]) + "\n"


def override(p, rng):
    """one relation is overridable: the base component defines it by junk rules, the derived one overrides it with the real ones"""
    types, edb, idb, clauses = split_text(p)
    victims = [r for r, _ in idb if any(h == r.name for h, _ in clauses)]
    if not victims:
        return plain(p)
    v = rng.choice(victims)
    base, derived = [], []
    for r, decl in idb:
        base += ["  " + decl + (" overridable" if r is v else "")] + (["  .output %s" % r.name] if r.output else [])
    # junk rule: every tuple of constants of the right types (would change the result if it survived)
    import gen as G
    g = G.Gen(rng, features=[])
    g.p = p
    junk = "%s(%s)." % (v.name, ", ".join(p.term_text(g.const_term(t)) for t in v.types))
    base.append("  " + junk)
    for h, t in clauses:
        (derived if h == v.name else base).append("  " + t)
    return "\n".join(types + edb + [".comp B {"] + base + ["}", ".comp A : B {", "  .override %s" % v.name] + derived + ["}", ".init a = A"]) + "\n"


def nested(p):
    types, edb, idb, clauses = split_text(p)
    body = []
    for r, decl in idb:
        body += ["    " + decl] + (["    .output %s" % r.name] if r.output else [])
    body += ["    " + t for _, t in clauses]
    return "\n".join(types + edb + [".comp Outer {", "  .comp Inner {"] + body + ["  }", "  .init in = Inner", "}", ".init o = Outer"]) + "\n"


def make_configs(rng):
    def configs(p):
        r = rng.fork(P.prog_hash(p))
        cs = [P.Config("flat")]
        for name, fn, prefix in (("component", plain, "a."), ("type parameter", typeparam, "a."), ("inheritance", lambda q: inherit(q, r.fork("inh")), "a."),
                                 ("override", lambda q: override(q, r.fork("ovr")), "a."), ("nested", nested, "o.in.")):
            c = P.Config(name, transform=fn)
            c.out_prefix = prefix
            cs.append(c)
        return cs
    return configs


def main(pid, tier, seed, replay):
    return P.standard_check(pid, LEVEL, tier, seed, make_configs(C.SplitMix64(seed)), 30, 500, features, proof_pid="C16",
        rule="generated programs x {flat, wrapped in a component, with a type parameter, rules split over base and derived component, overridable relation with junk base rules, "
        "two nested instantiation levels}; the instantiated relations a.R / o.in.R are compared with the oracle's R; non-trivial = distinct program with non-empty output")
