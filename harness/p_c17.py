"""C17 -- Writing relations and reading them back reproduces the tuples.

proof:  Properties_C17.v (CsvDefs/CsvLemmas): for every configuration accepted by cfg_ok (any delimiter, rfc4180 or not,
        headers or not), every list of rows whose fields satisfy the explicit boolean predicate `representable`,
        read_file cfg tys (write_file cfg tys rows) = Some rows -- numbers (full 32-bit ranges), symbols, nested / nil
        records, ADTs; tightness witnesses for what the formats cannot represent; the writers before the two repairs
        are proved NOT to round-trip.
tie:    unit level: the real WriteFileCSV / ReadFileCSV (cpp/io_harness.cpp, built from /repo's headers) and the extracted
        model run the same generated tuple sets under the same configurations: bytes written and tuples read back are
        compared token by token; wherever the model says `representable`, the REAL round trip must return the same tuples.
        system level: store-then-load souffle program pairs for tab / custom delimiter / rfc4180 / headers / gzip / JSON /
        SQLite: the implementation-level round-trip predicate (these last three formats are not modelled).
"""
import os

import common as C

LEVEL = "proof"
B31, B32 = 2 ** 31, 2 ** 32
TYPES = ["i:number", "u:unsigned", "s:symbol", "r:P", "r:Q", "+:A", "+:E"]


def sym(rng, nested):
    pool = ["a", "", "ab c", 'q"t', 'x""y', "a,b", "[z]", "a]b", "a[b", "back\\slash", "tr\\", "(p)", "a)b", "nil", " lead", "trail ", "$X(1)", "1", "-7", "\\\"", ";", "|", "ab", ",,"]
    if rng.chance(1, 4):
        pool = ["a", "b", "abc", "xy"]
    return rng.choice(pool)


def val(rng, ty, depth=0):
    """default-format text of a random value of the type (fixed environment of cpp/io_harness.cpp)"""
    if ty == "i:number":
        return str(rng.choice([0, -1, 7, B31 - 1, -B31, 42, -99999]))
    if ty == "u:unsigned":
        return str(rng.choice([0, 1, B32 - 1, B31, 12345]))
    if ty == "s:symbol":
        s = sym(rng, depth > 0)
        return s
    if ty == "r:P":
        if rng.chance(1, 5):
            return "nil"
        return "[%s, %s]" % (val(rng, "i:number"), nested_sym(rng))
    if ty == "r:Q":
        if rng.chance(1, 5):
            return "nil"
        return "[%s, %s]" % (val(rng, "r:P", depth + 1), val(rng, "u:unsigned"))
    if ty == "+:A":
        if rng.chance(1, 2):
            return "$X(%s)" % val(rng, "i:number")
        return "$Y(%s, %s)" % (nested_sym(rng), val(rng, "r:P", depth + 1))
    if ty == "+:E":
        return "$" + rng.choice(["R", "G", "B"])
    raise ValueError(ty)


def nested_sym(rng):
    """a symbol inside a record/ADT in the default text form: plain (no , ] ) leading blank/quote) or quoted with escapes"""
    if rng.chance(1, 2):
        return rng.choice(["a", "x y", "b", "q1", "", "z-9"])
    raw = rng.choice(['a,b', 'a]b', 'a)b', ' lead', 'q"t', 'back\\slash', 'tr\\', '"', '\\', 'a[b', 'nil', ''])
    return '"' + raw.replace("\\", "\\\\").replace('"', '\\"') + '"'


CONFIGS = ["-", "delimiter=2c", "delimiter=2c20", "delimiter=3b", "delimiter=7c", "delimiter=6162", "delimiter=2c2c", "rfc4180=true", "rfc4180=true,delimiter=3b",
           "rfc4180=true,delimiter=09", "headers=true", "rfc4180=true,headers=true"]


def gen_case(rng):
    ncols = rng.range(1, 4)
    tys = [rng.choice(TYPES) for _ in range(ncols)]
    rows = set()
    for _ in range(rng.range(1, 5)):
        row = [val(rng, t) for t in tys]
        if any("\t" in f or "\n" in f for f in row):
            continue
        rows.add("\t".join(row))
    content = "".join(r + "\n" for r in sorted(rows))
    return tys, content


def toks(line):
    return line.split()


def system_level(chk, souffle, rng, tier):
    """store-then-load program pairs through the real binary for every IO kind, incl. the unmodelled ones"""
    kinds = [("tab", "", ""), ("comma", 'delimiter=","', 'delimiter=","'), ("rfc4180", "rfc4180=true", "rfc4180=true"),
             ("headers", "headers=true", "headers=true"), ("gzip", 'compress=true', 'compress=true' if False else ""),
             ("json", "IO=jsonfile", "IO=jsonfile"), ("sqlite", 'IO=sqlite,dbname="DB"', 'IO=sqlite,dbname="DB"')]
    stats = {}
    variants = {
        "flat+record": (".type P = [a:number, b:symbol]\n.decl r(x:number, u:unsigned, f:float, s:symbol, p:P)\n",
                        ['-2147483648\t4294967295\t1.5\ta b\t[1, x]', '7\t0\t-0.25\tq\tnil', '0\t1\t3.4028235e+38\t\t[5, ]', '1\t2\t9.9999461e-41\tsym\t[0, y z]']),
        "adt": (".type P = [a:number, b:symbol]\n.type A = X {a:number} | Y {s:symbol, p:P}\n.decl r(x:number, a:A)\n",
                ['1\t$Y(s, [2, t])', '2\t$X(3)', '3\t$X(-1)']),
    }
    for vname, (decl, rows) in variants.items():
      for name, wopt, ropt in kinds:
        d = C.fresh_dir("c17sys", name + "_" + vname)
        with open(os.path.join(d, "r.facts"), "w") as fh:
            fh.write("\n".join(rows) + "\n")
        wsep = "," if wopt else ""
        if name == "gzip":
            w = '.output r(IO=file, filename="%s/stored.csv.gz", compress=true)' % d
            rd = '.input r(IO=file, filename="%s/stored.csv.gz")' % d
        elif name == "sqlite":
            w = '.output r(IO=sqlite, dbname="%s/db.sqlite")' % d
            rd = '.input r(IO=sqlite, dbname="%s/db.sqlite")' % d
        elif name == "json":
            w = '.output r(IO=jsonfile, filename="%s/stored.json")' % d
            rd = '.input r(IO=jsonfile, filename="%s/stored.json")' % d
        else:
            w = '.output r(filename="%s/stored.csv"%s%s)' % (d, wsep, wopt)
            rd = '.input r(filename="%s/stored.csv"%s%s)' % (d, wsep, ropt)
        with open(os.path.join(d, "w.dl"), "w") as fh:
            fh.write(decl + ".input r\n" + w + "\n.output r(filename=\"%s/direct.csv\")\n" % d)
        with open(os.path.join(d, "r.dl"), "w") as fh:
            fh.write(decl + rd + "\n.output r(filename=\"%s/back.csv\")\n" % d)
        rc1, _, e1 = C.sh([souffle, "-w", os.path.join(d, "w.dl"), "-F", d, "-D", d], timeout=120, cwd=d)
        rc2, _, e2 = C.sh([souffle, "-w", os.path.join(d, "r.dl"), "-F", d, "-D", d], timeout=120, cwd=d) if rc1 == 0 else (None, "", "")
        direct = sorted(open(os.path.join(d, "direct.csv")).read().splitlines()) if rc1 == 0 else None
        ok = rc1 == 0 and rc2 == 0 and sorted(open(os.path.join(d, "back.csv")).read().splitlines()) == direct and len(direct) == len(rows)
        stats[name + "/" + vname] = "same" if ok else "rc=%s/%s" % (rc1, rc2)
        if not ok:
            got = open(os.path.join(d, "back.csv")).read() if rc2 == 0 else ""
            chk.finding("C17-sys-%s-%s" % (name, vname), "store-then-load through %s (%s columns) does not reproduce the tuples (%s): %s" % (name, vname, stats[name + "/" + vname], (e1 + e2)[-300:]),
                        {"write_program": open(os.path.join(d, "w.dl")).read(), "read_program": open(os.path.join(d, "r.dl")).read(), "facts": rows, "read_back": got, "direct": direct})
    # ---- volume: relations much larger than any stream buffer (gzip: 64 KiB put area, 64 KiB - 16 get area), every kind
    nrows = 7000 if tier == "quick" else 60000
    big = ["%d\t%s" % (i * 7919 % 1000003 - 500000, "s%d_%s" % (i, "xyz"[i % 3] * (i % 23))) for i in range(nrows)]
    for name, wopt, ropt in kinds:
        d = C.fresh_dir("c17sys", name + "_big")
        with open(os.path.join(d, "r.facts"), "w") as fh:
            fh.write("\n".join(big) + "\n")
        wsep = "," if wopt else ""
        files = {"gzip": ('IO=file, filename="%s/stored.csv.gz", compress=true' % d, 'IO=file, filename="%s/stored.csv.gz"' % d),
                 "sqlite": ('IO=sqlite, dbname="%s/db.sqlite"' % d,) * 2, "json": ('IO=jsonfile, filename="%s/stored.json"' % d,) * 2}
        w, rd = files.get(name, ('filename="%s/stored.csv"%s%s' % (d, wsep, wopt), 'filename="%s/stored.csv"%s%s' % (d, wsep, ropt)))
        decl = ".decl r(x:number, s:symbol)\n"
        with open(os.path.join(d, "w.dl"), "w") as fh:
            fh.write(decl + ".input r\n.output r(%s)\n" % w)
        with open(os.path.join(d, "r.dl"), "w") as fh:
            fh.write(decl + ".input r(%s)\n.output r(filename=\"%s/back.csv\")\n" % (rd, d))
        rc1, _, e1 = C.sh([souffle, "-w", os.path.join(d, "w.dl"), "-F", d, "-D", d], timeout=300, cwd=d)
        rc2, _, e2 = C.sh([souffle, "-w", os.path.join(d, "r.dl"), "-F", d, "-D", d], timeout=300, cwd=d) if rc1 == 0 else (None, "", "")
        back = sorted(open(os.path.join(d, "back.csv")).read().splitlines()) if rc2 == 0 else None
        ok = back == sorted(big)
        stats[name + "/volume"] = "same" if ok else "rc=%s/%s" % (rc1, rc2)
        if not ok:
            diff = sorted(set(big) ^ set(back or []))[:6]
            chk.finding("C17-sys-%s-volume" % name, "store-then-load of %d rows (%d bytes of text) through %s does not reproduce the tuples (%s); first differing rows %s %s" % (nrows, sum(len(x) + 1 for x in big), name, stats[name + "/volume"], diff, (e1 + e2)[-200:]),
                        {"write_program": open(os.path.join(d, "w.dl")).read(), "read_program": open(os.path.join(d, "r.dl")).read(), "facts_rule": "row i = (i*7919 mod 1000003 - 500000, 's<i>_' + 'xyz'[i mod 3] * (i mod 23)), i < %d" % nrows, "differing_rows": diff})
    # ---- RFC 4180 with every short combination of the special characters inside a symbol (quote, newline, delimiter,
    #      backslash, blank), which the line-based default format used by the unit-level cases cannot carry: the symbols
    #      are facts in the program text; the reading program holds the same facts and reports what is missing / extra
    alpha = [("a", "a"), ('"', '\\"'), ("\n", "\\n"), (",", ","), ("\\", "\\\\"), (" ", " ")]
    syms = []
    for a in alpha:
        syms.append((a[0], a[1]))
        for b in alpha:
            syms.append((a[0] + b[0], a[1] + b[1]))
            for c in alpha:
                syms.append((a[0] + b[0] + c[0], a[1] + b[1] + c[1]))
    for delim in (",", ";"):
        d = C.fresh_dir("c17sys", "rfc_special_%d" % ord(delim))
        facts = "".join('orig(%d, "%s").\n' % (i, lit) for i, (_, lit) in enumerate(syms))
        opt = 'rfc4180=true, delimiter="%s", filename="%s/stored.csv"' % (delim, d)
        with open(os.path.join(d, "w.dl"), "w") as fh:
            fh.write(".decl orig(i:number, s:symbol)\n" + facts + ".output orig(%s)\n" % opt)
        with open(os.path.join(d, "r.dl"), "w") as fh:
            fh.write(".decl orig(i:number, s:symbol)\n" + facts + ".decl r(i:number, s:symbol)\n.input r(%s)\n" % opt +
                     ".decl missing(i:number)\nmissing(i) :- orig(i, s), !r(i, s).\n.decl extra(i:number)\nextra(i) :- r(i, s), !orig(i, s).\n"
                     ".output missing(filename=\"%s/missing.csv\")\n.output extra(filename=\"%s/extra.csv\")\n" % (d, d))
        rc1, _, e1 = C.sh([souffle, "-w", os.path.join(d, "w.dl"), "-D", d], timeout=120, cwd=d)
        rc2, _, e2 = C.sh([souffle, "-w", os.path.join(d, "r.dl"), "-D", d], timeout=120, cwd=d) if rc1 == 0 else (None, "", "")
        missing = open(os.path.join(d, "missing.csv")).read().split() if rc2 == 0 else None
        extra = open(os.path.join(d, "extra.csv")).read().split() if rc2 == 0 else None
        ok = rc2 == 0 and not missing and not extra
        stats["rfc4180-special-symbols/delimiter %s" % delim] = "same (%d symbols)" % len(syms) if ok else "rc=%s/%s missing=%s extra=%s" % (rc1, rc2, (missing or [])[:5], (extra or [])[:5])
        if not ok:
            lost = [syms[int(i)][0] for i in (missing or [])[:5] if i.isdigit() and int(i) < len(syms)]
            chk.finding("C17-sys-rfc4180-special-symbols", "RFC 4180 store-then-load (delimiter %r) loses or alters symbols made of quote / newline / delimiter / backslash / blank: %s; symbols not read back: %r %s" % (delim, stats["rfc4180-special-symbols/delimiter %s" % delim], lost, (e1 + e2)[-300:]),
                        {"write_program": open(os.path.join(d, "w.dl")).read()[:3000], "read_options": opt, "symbols_not_read_back": lost})
    return stats


def main(pid, tier, seed, replay):
    chk = C.Check(pid, LEVEL, tier, seed)
    rng = chk.rng
    harness = C.compile_cpp(os.path.join(C.CPP, "io_harness.cpp"), os.path.join(C.WORK, "bin", "io_harness"))
    souffle = C.build_souffle()
    chk.proof_stage()
    model = C.ocaml_driver("csv")
    tmp = C.fresh_dir("c17tmp")
    n = 2500 if tier == "quick" else 60000
    cases = []
    for i in range(n):
        r = rng.fork("case%d" % i)
        tys, content = gen_case(r)
        if not content:
            continue
        cfg = r.choice(CONFIGS)
        cases.append((cfg, tys, content))
    inp = "".join("rt %s %d %s %s\n" % (cfg, len(tys), " ".join(tys), content.encode("latin-1").hex()) for cfg, tys, content in cases)
    rc, iout, ierr = C.sh([harness, tmp], input=inp.encode(), timeout=3000)
    rc2, mout, merr = C.sh([model], input=inp.encode(), timeout=3000)
    rc3, rout, rerr = C.sh([model], input=inp.replace("rt ", "rep ", 1).replace("\nrt ", "\nrep ").encode(), timeout=3000)
    il, ml, rl = iout.splitlines(), mout.splitlines(), rout.splitlines()
    if len(il) != len(cases):
        bad = cases[min(len(il), len(cases) - 1)]
        chk.finding(None, "the real reader/writer crashed (rc=%s) on a generated case: %s" % (rc, ierr[-200:]),
                    {"config": bad[0], "types": bad[1], "default_format_file": bad[2]})
    hist = {"same": 0, "DIFF": 0, "backerr": 0, "err": 0, "representable_cases": 0}
    distinct = set()
    for (cfg, tys, content), i, m, rp in zip(cases, il, ml, rl):
        it, mt = toks(i), toks(m)
        # compare up to (and excluding) the hex error text the harness appends after err / backerr
        def norm(t):
            t = list(t)
            for k, x in enumerate(t):
                if x in ("err", "backerr"):
                    return t[: k + 1]
            return t
        verdict = "err" if it[0] == "err" else ("backerr" if "backerr" in it else ("same" if "same" in it else "DIFF"))
        hist[verdict] += 1
        rep = {"config": cfg, "types": tys, "default_format_file": content, "real": i[:600], "model": m[:600], "model_representable": rp}
        rpt = toks(rp)
        all_rep = len(rpt) >= 3 and rpt[0] == "rep" and set(rpt[2]) == {"1"}
        if all_rep:
            hist["representable_cases"] += 1
            distinct.add((cfg, tuple(tys), content))
            if verdict != "same":
                chk.finding(None, "C17 fails on the real reader/writer: rows the format can represent did not come back (%s)" % verdict, rep)
                continue
        if norm(it) != norm(mt):
            chk.violation("model and real reader/writer disagree (token comparison of bytes written / tuples read back)",
                          dict(rep, correspondence="CsvDefs vs WriteFileCSV/ReadFileCSV"), no_input=True)
        elif len(chk.samples) < 5 and verdict == "same" and ('"' in content or "[" in content):
            chk.sample(rep)
    sysstats = system_level(chk, souffle, rng.fork("sys"), tier)
    chk.cov.update({"evaluations": len(cases) + len(sysstats), "distinct_nontrivial": len(distinct),
                    "rule": "1-4 columns over {number, unsigned, symbol, record P, nested record Q, ADT A, enum E} x 1-5 rows with extreme numbers and symbols containing quotes, "
                            "delimiters, brackets, parentheses, backslashes, blanks x 12 configurations; non-trivial = distinct case whose rows the model proves representable in that configuration",
                    "traces_validated_against_impl": len(il), "verdicts": hist, "system_level": sysstats})
    chk.assumptions = ["float fields are outside the model (exercised only by the system-level pairs)", "gzip / JSON / SQLite streams are not modelled (system-level round trip only)"]
    return chk.finish(["Coq 8.16.1 kernel; Properties_C17.v closed under the global context", "extraction ExtrOcamlBasic; ocaml/csv_driver.ml",
                       "cpp/io_harness.cpp driving the real WriteFileCSV / ReadFileCSV", "zlib, SQLite, libc float formatting in the system-level part",
                       "modelled, not verified: WriteStreamCSV.h, WriteStream.h (outputRecord/ADT), ReadStreamCSV.h, ReadStream.h (readRecord/ADT/symbols)"])
