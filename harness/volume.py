"""Volume family shared by C02 / C03 / C08: programs whose relations are large enough to split B-tree nodes many times, to
raise brie levels, to give every OpenMP worker several chunks of a parallel scan and to overflow IO buffers -- none of which
the small generated programs of the pipeline differential do. The expected relations are computed here in python
(reachability by BFS, union-find for the equivalence closure, counts), independently of souffle and of the Coq reference,
whose list-based evaluator is too slow at this size; so this family is an exploration supplement, not part of a theorem.
"""
import os

import common as C


def make_case(rng, qual_choices=("", "btree", "brie"), nodes=None):
    n = nodes or rng.range(90, 160)
    lo = rng.choice([0, -n // 2, 2 ** 31 - 1 - n, -2 ** 31 + 1])          # value window: small, mixed sign, next to either extreme
    ids = [lo + i for i in range(n)]
    edges = set()
    for _ in range(int(n * rng.choice([1.1, 1.5, 2.0]))):
        edges.add((rng.choice(ids), rng.choice(ids)))
    edges = sorted(edges)
    q = lambda: rng.choice(list(qual_choices))
    qp, qn, qs = q(), q(), q()
    dl = []
    dl.append(".decl e(x:number, y:number) %s\n.input e" % q())
    dl.append(".decl node(x:number)\nnode(x) :- e(x, _).\nnode(x) :- e(_, x).")
    dl.append(".decl p(x:number, y:number) %s\np(x, y) :- e(x, y).\np(x, z) :- p(x, y), e(y, z).\n.output p" % qp)
    dl.append(".decl cyc(x:number)\ncyc(x) :- p(x, x).\n.output cyc")
    dl.append(".decl np(x:number, y:number) %s\nnp(x, y) :- node(x), node(y), !p(x, y), x <= y.\n.output np" % qn)
    dl.append(".decl cnt(x:number, c:number)\ncnt(x, c) :- node(x), c = count : { p(x, _) }.\n.output cnt")
    dl.append(".decl far(x:number, m:number)\nfar(x, m) :- node(x), m = max y : { p(x, y) }.\n.output far")
    dl.append(".decl eq(x:number, y:number) eqrel\neq(x, y) :- e(x, y).\n.decl eqs(x:number, y:number) %s\neqs(x, y) :- eq(x, y), x < y.\n.output eqs" % qs)
    text = "\n".join(dl) + "\n"
    # ---- expected
    succ = {}
    for a, b in edges:
        succ.setdefault(a, set()).add(b)
    nodes_s = sorted({a for a, _ in edges} | {b for _, b in edges})
    reach = {}
    for s in nodes_s:
        seen, stack = set(), list(succ.get(s, ()))
        while stack:
            v = stack.pop()
            if v in seen:
                continue
            seen.add(v)
            stack.extend(succ.get(v, ()))
        reach[s] = seen
    par = {x: x for x in nodes_s}

    def find(x):
        while par[x] != x:
            par[x] = par[par[x]]
            x = par[x]
        return x
    for a, b in edges:
        ra, rb = find(a), find(b)
        if ra != rb:
            par[ra] = rb
    cls = {}
    for x in nodes_s:
        cls.setdefault(find(x), []).append(x)
    exp = {
        "p": {"%d\t%d" % (s, t) for s in nodes_s for t in reach[s]},
        "cyc": {"%d" % s for s in nodes_s if s in reach[s]},
        "np": {"%d\t%d" % (s, t) for s in nodes_s for t in nodes_s if s <= t and t not in reach[s]},
        "cnt": {"%d\t%d" % (s, len(reach[s])) for s in nodes_s},
        "far": {"%d\t%d" % (s, max(reach[s])) for s in nodes_s if reach[s]},
        "eqs": {"%d\t%d" % (a, b) for c in cls.values() for a in c for b in c if a < b},
    }
    facts = {"e": "".join("%d\t%d\n" % ab for ab in edges)}
    return {"program": text, "facts": facts, "expected": exp, "nodes": len(nodes_s), "edges": len(edges), "window_start": lo,
            "tuples": sum(len(v) for v in exp.values())}


def post_step(tag, ncases_quick, ncases_thorough, run_specs, qual_choices=("", "btree", "brie")):
    """a `post` function for pipeline.standard_check: runs the volume cases under the given run specifications
    [(name, kwargs of run_case, only_first_case?)] and reports every disagreement with the python expectation"""
    def post(chk, progs, oracle, stats):
        vr = chk.rng.fork("volume")
        cases = [make_case(vr.fork("v%d" % i), qual_choices) for i in range(ncases_quick if chk.tier == "quick" else ncases_thorough)]
        runs = [(i, name, kw) for i in range(len(cases)) for (name, kw, first_only) in run_specs if not first_only or i == 0]

        def one(k):
            i, name, kw = runs[k]
            return run_case(cases[i], C.fresh_dir(tag, "%d_%d" % (i, k)), **kw)
        res = C.parallel_map(one, range(len(runs)), workers=4)
        for (i, name, kw), r in zip(runs, res):
            if r is not None:
                chk.finding(None, "volume program under '%s': %s" % (name, r), {"program": cases[i]["program"], "facts": {"e": cases[i]["facts"]["e"][:20000]}, "config": name})
        stats["volume_runs"] = len(runs)
        stats["volume_tuples"] = [c["tuples"] for c in cases]
    return post


def run_case(case, d, args=(), jobs=None, env=None, compiled=False, timeout=900):
    """returns None if all outputs equal the expected relations, else a short description"""
    os.makedirs(os.path.join(d, "facts"), exist_ok=True)
    out = os.path.join(d, "out")
    os.makedirs(out, exist_ok=True)
    for f in os.listdir(out):
        os.remove(os.path.join(out, f))
    with open(os.path.join(d, "p.dl"), "w") as fh:
        fh.write(case["program"])
    for k, v in case["facts"].items():
        with open(os.path.join(d, "facts", k + ".facts"), "w") as fh:
            fh.write(v)
    cmd = [C.souffle_bin(), "-w", os.path.join(d, "p.dl"), "-F", os.path.join(d, "facts"), "-D", out] + list(args)
    if compiled:
        cmd.append("-c")
    if jobs:
        cmd.append("-j%d" % jobs)
    rc, so, se = C.sh(cmd, timeout=timeout, cwd=d, env=env)
    if rc != 0:
        return "souffle failed (status %s): %s" % (rc, se[-300:])
    for rel, exp in case["expected"].items():
        path = os.path.join(out, rel + ".csv")
        rows = open(path).read().splitlines() if os.path.exists(path) else None
        if rows is None:
            return "no output file for %s" % rel
        if len(rows) != len(set(rows)):
            return "%s contains duplicate rows" % rel
        if set(rows) != exp:
            miss, extra = sorted(exp - set(rows))[:4], sorted(set(rows) - exp)[:4]
            return "%s differs: %d rows, expected %d; missing %s, unexpected %s" % (rel, len(rows), len(exp), miss, extra)
    return None
