"""C27 -- Brie tries behave as tuple sets under concurrent insertion.

proof:  Properties_C27.v (BrieDefs/BrieLemmas): an executable model of Brie.h with the code's shape (SparseArray as the sorted
        list of its non-default leaf cells addressed by structural position, digit by digit through getIndex / raiseLevel;
        SparseBitMap<4>; Trie<Dim> as nested arrays) refines the set of inserted tuples for EVERY sequential history of
        arity 1-4 over all 32-bit keys: insert reports `new` exactly once per tuple, contains / size / full iteration /
        prefix ranges answer as the set does, iteration order is the unsigned lexicographic order.
tie:    (a) sequential: the REAL souffle::Trie<1..4> (cpp/brie_harness.cpp, protocol twin of ocaml/brie_driver.ml) and the
        extracted model run the same generated histories (small, sparse, mixed-sign and level-boundary keys); every answer,
        including the exact iteration order, is compared; the model-independent set specification is compared too.
        (b) concurrent (the part the sequential theorem cannot carry): 2-4 real threads insert overlapping tuple lists
        under the deterministic scheduler (hook H5: a scheduling point before every atomic operation of the lock-free
        protocols), with and without operation contexts; at quiescence the trie must be the union, every distinct tuple
        must have been reported new exactly once, and size / iteration / membership / partition must agree with the set.
        The interleaving part is exploration of seeded schedules, not proof.
"""
import os

import common as C

LEVEL = "proof"
MODEL_MODE = "fixed"       # the mode of BrieDefs that describes /repo's Brie.h as it is now
BOUND = [0, 1, 63, 64, 65, 4095, 4096, 4097, 2 ** 18 - 1, 2 ** 18, 2 ** 24, 2 ** 30 - 1, 2 ** 30, 2 ** 31 - 1,
         -1, -2, -63, -64, -65, -4096, -4097, -2 ** 18, -2 ** 30, -2 ** 31, -2 ** 31 + 1]


def pool(rng):
    prof = rng.choice(["small", "sparse", "mixed", "bound", "bound", "mixed"])
    k = rng.range(2, 7)
    if prof == "small":
        return prof, [rng.range(0, 200) for _ in range(k)]
    if prof == "sparse":
        return prof, [rng.range(-2 ** 31, 2 ** 31 - 1) for _ in range(k)]
    if prof == "mixed":
        return prof, [rng.range(-70, 70) for _ in range(k)] + [-1, 5]
    return prof, [rng.choice(BOUND) for _ in range(k)]


def tup(rng, pl, dim):
    return tuple(rng.choice(pl) for _ in range(dim))


def show(t):
    return ",".join(str(x) for x in t)


def gen_history(rng):
    dim = rng.range(1, 4)
    prof, pl = pool(rng)
    ops, ins = [], []
    for _ in range(rng.range(2, 30)):
        r = rng.below(100)
        if r < 50 or not ins:
            t = tup(rng, pl, dim)
            ins.append(t)
            ops.append("i:" + show(t))
        elif r < 70:
            t = rng.choice(ins) if rng.chance(1, 2) else tup(rng, pl, dim)
            ops.append("c:" + show(t))
        elif r < 75:
            ops.append("z")
        elif r < 85:
            ops.append("it")
        else:
            t = rng.choice(ins) if rng.chance(3, 4) else tup(rng, pl, dim)
            ops.append("p:" + show(t[: rng.range(0, dim)]))
    ops += ["z", "it"] + ["c:" + show(t) for t in ins[:6]]
    return dim, prof, ops


def gen_par(rng):
    dim = rng.range(1, 4)
    prof, pl = pool(rng)
    n = rng.range(2, 4)
    shared = [tup(rng, pl, dim) for _ in range(rng.range(1, 6))]
    keys = [[rng.choice(shared) if rng.chance(1, 2) else tup(rng, pl, dim) for _ in range(rng.range(1, 5))] for _ in range(n)]
    return dim, prof, rng.below(2), n, rng.next() % (1 << 31), rng.choice([20, 50, 80]), rng.range(1, 4), keys


def par_line(c):
    dim, prof, ctx, n, seed, sw, chunks, keys = c
    return "par %d %d %d %d %d %d | %s |" % (dim, ctx, n, seed, sw, chunks, " | ".join(" ".join("i:" + show(t) for t in ks) for ks in keys))


def main(pid, tier, seed, replay):
    chk = C.Check(pid, LEVEL, tier, seed)
    rng = chk.rng
    harness = C.compile_cpp(os.path.join(C.CPP, "brie_harness.cpp"), os.path.join(C.WORK, "bin", "brie_harness"))
    chk.proof_stage()
    model = C.ocaml_driver("brie")
    n = 2000 if tier == "quick" else 40000
    hist = [gen_history(rng.fork("h%d" % i)) for i in range(n)]
    # corpus first: the minimal histories of the mixed-sign defect (negative key first, then a non-negative one)
    hist = [(1, "corpus", "i:-1 i:5 c:-1 c:5 z it".split()), (2, "corpus", "i:-1,1 i:5,2 c:-1,1 it p:-1 p:5 z".split()),
            (2, "corpus", "i:5,2 i:-1,1 c:-1,1 it z".split()), (3, "corpus", "i:-2147483648,0,-1 i:2147483647,-1,0 i:0,0,0 it z c:-2147483648,0,-1".split())] + hist

    def run(binary, mode):
        inp = "".join("%d %s %s\n" % (d, mode, " ".join(ops)) for d, _, ops in hist).encode()
        rc, out, err = C.sh([binary], input=inp, timeout=3000)
        return rc, out.splitlines(), err
    rc, il, ierr = run(harness, "real")
    _, ml, _ = run(model, MODEL_MODE)
    _, sl, _ = run(model, "spec")
    if rc != 0 or len(il) != len(hist):
        chk.finding(None, "the real Trie crashed (rc=%s) on a history: %s" % (rc, ierr[-200:]), {"history": " ".join(hist[min(len(il), len(hist) - 1)][2])})
    distinct = set()
    stats = {"histories": 0, "answers": 0, "by_profile": {}, "by_dim": {}}
    for (d, prof, ops), i, m, s in zip(hist, il, ml, sl):
        stats["histories"] += 1
        stats["by_profile"][prof] = stats["by_profile"].get(prof, 0) + 1
        stats["by_dim"][str(d)] = stats["by_dim"].get(str(d), 0) + 1
        ia, ma, sa = ([x.strip() for x in l.split(";")] for l in (i, m, s))
        stats["answers"] += len(ia)
        rep = {"history": "%d real %s" % (d, " ".join(ops)), "real": i[:1500], "model_%s" % MODEL_MODE: m[:1500], "set_specification": s[:1500]}
        if ia != sa:
            k = next((j for j, (x, y) in enumerate(zip(ia, sa)) if x != y), -1)
            negfirst = any(o.startswith("i:") and "-" in o for o in ops)
            chk.finding("C27-brie-mixed-sign-keys" if negfirst and ia == [x.strip() for x in run_one(model, d, "asis", ops)] else None,
                        "C27 fails on the real Trie<%d>: operation %s answered %r, the set of inserted tuples says %r" % (d, ops[k] if 0 <= k < len(ops) else "?", ia[k][:100] if k >= 0 else "", sa[k][:100] if k >= 0 else ""), rep)
        elif ia != ma:
            k = next((j for j, (x, y) in enumerate(zip(ia, ma)) if x != y), -1)
            chk.violation("real Trie and model (%s) disagree although the real answers are those of the set (answer %d)" % (MODEL_MODE, k),
                          dict(rep, correspondence="BrieDefs.run_model vs Brie.h"), no_input=True)
        if sum(1 for o in ops if o[0] == "i") >= 3:
            distinct.add((d, " ".join(ops)))
        if len(chk.samples) < 2 and prof == "bound" and d >= 2:
            chk.sample(rep)
    # ---- concurrent insertion under the deterministic scheduler
    npar = 300 if tier == "quick" else 8000
    pars = [gen_par(rng.fork("p%d" % i)) for i in range(npar)]
    pars = [(2, "corpus", 1, 2, 1, 50, 2, [[(-1, 1), (5, 2)], [(5, 2), (-1, 1)]])] + pars
    rc, out, err = C.sh([harness], input="".join(par_line(c) + "\n" for c in pars).encode(), timeout=6000)
    pl = out.splitlines()
    if rc != 0 or len(pl) != len(pars):
        chk.finding(None, "the real Trie crashed (rc=%s) under concurrent insertion: %s" % (rc, err[-200:]), {"case": par_line(pars[min(len(pl), len(pars) - 1)])})
    # expected iteration order from the set specification (insert the union, iterate)
    spec_in = "".join("%d spec %s it\n" % (c[0], " ".join("i:" + show(t) for ks in c[7] for t in ks)) for c in pars).encode()
    _, sout, _ = C.sh([model], input=spec_in, timeout=3000)
    spec_it = [l.split(";")[-1].strip() for l in sout.splitlines()]
    cstats = {"histories": 0, "atomic_steps": 0, "contended_tuples": 0, "with_ctx": 0}
    for c, l, sit in zip(pars, pl, spec_it):
        dim, prof, ctx, nthr, sd, sw, chunks, keys = c
        parts = [x.strip() for x in l.split(";")]
        rep = {"case": par_line(c), "real": l[:1500], "expected_iteration": sit}
        cstats["histories"] += 1
        cstats["with_ctx"] += ctx
        bad = None
        if len(parts) < 6:
            bad = "unreadable harness answer"
        else:
            res = {int(w[1:].split(":")[0]): w.split(":")[1] for w in parts[0].split()}
            steps = parts[1].split()
            cstats["atomic_steps"] += int(steps[1])
            union = {t for ks in keys for t in ks}
            wins = {}
            for tid, ks in enumerate(keys):
                seen = set()
                for t, r in zip(ks, res.get(tid, "")):
                    if r == "t":
                        wins[t] = wins.get(t, 0) + 1
                        if t in seen:
                            bad = "thread %d was told twice that %s was new" % (tid, show(t))
                    seen.add(t)
                if len(res.get(tid, "")) != len(ks):
                    bad = "thread %d did not finish its inserts" % tid
            cstats["contended_tuples"] += sum(1 for t in union if sum(1 for ks in keys if t in ks) > 1)
            for t in union:
                if wins.get(t, 0) != 1 and not bad:
                    bad = "tuple %s was reported new %d times" % (show(t), wins.get(t, 0))
            if "STUCK" in steps and not bad:
                bad = "an insertion never completed under the schedule (step budget exhausted)"
            if not bad and int(parts[2]) != len(union):
                bad = "size() = %s after inserting %d distinct tuples" % (parts[2], len(union))
            if not bad and parts[3] != sit:
                bad = "iteration lists %r, the set lists %r" % (parts[3][:200], sit[:200])
            if not bad and "f" in parts[4]:
                bad = "contains() is false for an inserted tuple"
            if not bad:
                chunks_l = [x.split() for x in parts[5].strip("{}").split("}{")] if parts[5] else []
                flat = [t for ch in chunks_l for t in ch]
                if sorted(flat) != sorted(sit.split()) or len(set(flat)) != len(flat):
                    bad = "partition() chunks %r do not cover the set exactly once" % parts[5][:200]
        if bad:
            asis = None
            if any(x < 0 for ks in keys for t in ks for x in t):
                # is this the known sequential mixed-sign defect? (the unchanged header's model loses the same tuples when the
                # union is inserted in some order) -- only then may the known-finding key apply
                asis = "C27-brie-mixed-sign-keys" if MODEL_MODE == "asis" else None
            chk.finding(asis, "C27 fails on the real Trie<%d> under concurrent insertion: %s" % (dim, bad), rep)
        if len(chk.samples) < 4 and cstats["histories"] > 2 and nthr >= 3 and ctx:
            chk.sample(rep)
    chk.cov.update({"evaluations": len(hist) + len(pars), "distinct_nontrivial": len(distinct),
                    "rule": "sequential histories (arity 1-4; key pools: small, sparse 32-bit, mixed sign, level boundaries 2^(6k)+-1 and the 32-bit extremes): insert 50%, contains 20%, size, iteration, prefix ranges; "
                            "non-trivial = distinct history with at least 3 inserts; concurrent: 2-4 threads x 1-5 inserts from overlapping pools, seeded schedules (switch probability 20/50/80%), with/without op contexts",
                    "traces_validated_against_impl": len(ml), "stats": stats, "concurrent": cstats})
    chk.assumptions = ["sequentially consistent interleaving at the hooked atomic operations (memory orders not modelled)",
                       "concurrent histories are explored on seeded schedules and judged by the set predicate at quiescence; only the sequential refinement is proved"]
    return chk.finish(["Coq 8.16.1 kernel; Properties_C27.v", "extraction ExtrOcamlBasic; ocaml/brie_driver.ml", "cpp/brie_harness.cpp (protocol twin of the model driver), cpp/vsched.h",
                       "hook H5 in Brie.h (yield before each atomic operation)", "modelled: sequential SparseArray / SparseBitMap / Trie operations with a fresh op_context; NOT modelled: the CAS protocols, op_context shortcuts (exercised by the harness, judged by the set predicate), lower_bound / upper_bound, merge (insertAll)"])


def run_one(model, d, mode, ops):
    rc, out, err = C.sh([model], input=("%d %s %s\n" % (d, mode, " ".join(ops))).encode(), timeout=60)
    return (out.splitlines() or [""])[0].split(";")
