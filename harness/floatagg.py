"""Float aggregates (C01 supplement): the Coq reference evaluator has no float functors, so min / max / sum / mean / count over
float columns are judged here against an independent python expectation. All values are multiples of 1/8 of small magnitude,
so every min, max and sum is exactly representable in binary32 and independent of the order of summation; mean is compared
with a relative tolerance of 1e-6. Groups are built to contain only negative values, only positive values, both, a single
value, zeros, and no value at all (min / max / mean must then not fire, count / sum fire with 0)."""
import os

import common as C


def make_case(rng):
    groups = {}
    shapes = ["neg", "pos", "mixed", "single", "zero", "neg", "mixed"]
    for g in range(rng.range(4, 8)):
        shape = rng.choice(shapes)
        k = 1 if shape == "single" else rng.range(2, 7)
        lo, hi = {"neg": (-400, -1), "pos": (1, 400), "mixed": (-400, 400), "single": (-400, 400), "zero": (0, 0)}[shape]
        groups[g] = sorted({rng.range(lo, hi) / 8.0 for _ in range(k)})
    empty = max(groups) + 1                      # a group key without any value
    text = (".decl v(g:number, x:float)\n.input v\n.decl k(g:number)\n.input k\n"
            ".decl hi(g:number, m:float)\nhi(g, m) :- k(g), m = max x : { v(g, x) }.\n.output hi\n"
            ".decl lo(g:number, m:float)\nlo(g, m) :- k(g), m = min x : { v(g, x) }.\n.output lo\n"
            ".decl tot(g:number, s:float)\ntot(g, s) :- k(g), s = sum x : { v(g, x) }.\n.output tot\n"
            ".decl avg(g:number, s:float)\navg(g, s) :- k(g), s = mean x : { v(g, x) }.\n.output avg\n"
            ".decl cnt(g:number, c:number)\ncnt(g, c) :- k(g), c = count : { v(g, _) }.\n.output cnt\n"
            ".decl hi_all(m:float)\nhi_all(m) :- m = max x : { v(_, x), x < 0 }.\n.output hi_all\n")
    facts = {"v": "".join("%d\t%r\n" % (g, x) for g, xs in groups.items() for x in xs), "k": "".join("%d\n" % g for g in list(groups) + [empty])}
    negs = [x for xs in groups.values() for x in xs if x < 0]
    exp = {"hi": {g: max(xs) for g, xs in groups.items()}, "lo": {g: min(xs) for g, xs in groups.items()},
           "tot": dict([(g, sum(xs)) for g, xs in groups.items()] + [(empty, 0.0)]),
           "avg": {g: sum(xs) / len(xs) for g, xs in groups.items()},
           "cnt": dict([(g, float(len(xs))) for g, xs in groups.items()] + [(empty, 0.0)]),
           "hi_all": ({None: max(negs)} if negs else {})}
    return {"program": text, "facts": facts, "expected": exp}


def run_case(case, d, compiled=False, jobs=1):
    os.makedirs(os.path.join(d, "facts"), exist_ok=True)
    out = os.path.join(d, "out_c" if compiled else "out_i")
    os.makedirs(out, exist_ok=True)
    with open(os.path.join(d, "p.dl"), "w") as fh:
        fh.write(case["program"])
    for k, v in case["facts"].items():
        with open(os.path.join(d, "facts", k + ".facts"), "w") as fh:
            fh.write(v)
    rc, so, se = C.sh([C.souffle_bin(), "-w", os.path.join(d, "p.dl"), "-F", os.path.join(d, "facts"), "-D", out, "-j%d" % jobs] + (["-c"] if compiled else []), timeout=900, cwd=d)
    if rc != 0:
        return "souffle failed (status %s): %s" % (rc, se[-300:])
    for rel, exp in case["expected"].items():
        rows = open(os.path.join(out, rel + ".csv")).read().splitlines()
        got = {}
        for r in rows:
            f = r.split("\t")
            key = None if len(f) == 1 else int(f[0])
            if key in got:
                return "%s has two rows for group %s" % (rel, key)
            got[key] = float(f[-1])
        if set(got) != set(exp):
            return "%s has rows for groups %s, expected %s" % (rel, sorted(got, key=str), sorted(exp, key=str))
        for key, v in exp.items():
            if abs(got[key] - v) > 1e-6 * max(1.0, abs(v)) or (v != 0 and str(got[key])[0] != str(v)[0]):
                return "%s(%s) = %r, expected %r" % (rel, key, got[key], v)
    return None


def post_step(nquick, nthorough):
    def post(chk, progs, oracle, stats):
        r = chk.rng.fork("floatagg")
        cases = [make_case(r.fork("f%d" % i)) for i in range(nquick if chk.tier == "quick" else nthorough)]
        runs = [(i, False) for i in range(len(cases))] + [(0, True)]

        def one(k):
            i, compiled = runs[k]
            return run_case(cases[i], C.fresh_dir("c01float", "%d_%d" % (i, k)), compiled=compiled)
        res = C.parallel_map(one, range(len(runs)), workers=8)
        for (i, compiled), bad in zip(runs, res):
            if bad:
                chk.finding(None, "float aggregate differs from its value (%s): %s" % ("compiled" if compiled else "interpreter", bad),
                            {"program": cases[i]["program"], "facts": cases[i]["facts"], "compiled": compiled})
        stats["float_aggregate_runs"] = len(runs)
    return post
