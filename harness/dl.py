"""Running generated programs through the real Souffle and through the extracted oracle."""
import os
import shutil

import common as C
import gen as G


def write_case(p, d, dl_text=None, rng=None):
    os.makedirs(os.path.join(d, "facts"), exist_ok=True)
    os.makedirs(os.path.join(d, "out"), exist_ok=True)
    with open(os.path.join(d, "p.dl"), "w", encoding="latin-1") as fh:
        fh.write(dl_text if dl_text is not None else p.render_dl(rng=rng))
    for r in p.rels:
        if r.kind == "edb":
            with open(os.path.join(d, "facts", r.name + ".facts"), "w", encoding="latin-1") as fh:
                fh.write(p.facts_text(r.name))
    return os.path.join(d, "p.dl")


def read_outputs(p, outdir, rels=None, prefix=""):
    res = {}
    for r in p.rels:
        if (rels is None and r.output) or (rels is not None and r.name in rels):
            path = os.path.join(outdir, prefix + r.name + ".csv")
            if not os.path.exists(path):
                res[r.name] = None
                continue
            with open(path, encoding="latin-1", newline="") as fh:
                txt = fh.read()
            rows = txt.split("\n")
            if rows and rows[-1] == "":
                rows.pop()
            if not r.types:
                rows = ["" if x == "()" else x for x in rows]       # souffle writes the empty tuple of a nullary relation as ()
            res[r.name] = rows
    return res


def run_souffle(p, d, args=(), outsub="out", timeout=120, env=None, dl="p.dl", jobs=None, prefix=""):
    """interpreter run; returns (rc, stderr, {rel: [rows as written]})"""
    out = os.path.join(d, outsub)
    shutil.rmtree(out, ignore_errors=True)
    os.makedirs(out)
    cmd = [C.souffle_bin(), "-w", os.path.join(d, dl), "-F", os.path.join(d, "facts"), "-D", out] + list(args)
    if jobs is not None:
        cmd += ["-j", str(jobs)]
    rc, so, se = C.sh(cmd, timeout=timeout, env=env, cwd=d)
    return rc, se, (read_outputs(p, out, prefix=prefix) if rc == 0 else {})


def canon(rows):
    return None if rows is None else sorted(rows)


def oracle_batch(progs, fuel=200):
    """progs: list of Prog -> list of ('ok', {rel: sorted rows}, rounds) | ('undef'|'stuck'|'fuel'|'parse-error', msg)"""
    exe = C.ocaml_driver("datalog")
    inp = "".join(p.render_sexpr(fuel=fuel) + "\n" for p in progs)
    # the extracted evaluator is not tail recursive everywhere: give it a large stack (large programs of the thorough tier)
    rc, out, err = C.sh(["bash", "-c", "ulimit -s unlimited 2>/dev/null || ulimit -s 4000000 2>/dev/null; exec \"$0\"", exe], input=inp.encode("latin-1"), timeout=1800)
    if rc != 0:
        raise C.BuildError("oracle driver failed rc=%s: %s" % (rc, err[-500:]))
    lines = out.split("\n")
    res = []
    for p, line in zip(progs, lines):
        if not line.startswith("ok "):
            res.append((line.split(" ")[0], line))
            continue
        sx = G.parse_sx(line[3:])
        rounds = [int(x) for x in sx[0][1:]]
        rels = {}
        byid = {r.id: r for r in p.rels}
        try:
            for ent in sx[1:]:
                r = byid[int(ent[0])]
                rows = ["\t".join(p.sx_value_text(v, t) for v, t in zip(tup, r.types)) for tup in ent[1:]]
                rels[r.name] = sorted(rows)
        except (ValueError, IndexError, TypeError) as e:
            res.append(("ill-typed", "oracle produced a value that does not fit the declared column type: %s" % e))
            continue
        # 4th component: the static hypotheses of C01_run_program_correct (program_ok, program_det) hold for this input
        res.append(("ok", rels, rounds, sx[0][0] == "rounds"))
    return res


def diff_outputs(expect, got):
    """both {rel: rows}; returns list of (rel, missing, unexpected, duplicates)"""
    bad = []
    for rel, exp in expect.items():
        g = got.get(rel)
        if g is None:
            bad.append((rel, exp[:5], ["<no output file>"], []))
            continue
        gs = sorted(g)
        if gs != exp:
            se, sg = set(exp), set(gs)
            dups = sorted(set(x for x in gs if gs.count(x) > 1))[:5]
            bad.append((rel, sorted(se - sg)[:5], sorted(sg - se)[:5], dups))
    return bad
