"""C28 -- Equivalence-relation storage is the closure of inserted pairs.

proof:  Properties_C28.v (EqRelDefs/EqRelLemmas): a sequential model with the implementation's shape (sparse->dense map,
        union-find forest with path halving / union by rank as repaired, stale-flag partition cache). For every history of
        insert / insertAll / extendAndInsert over 32-bit elements: contains <-> reflexive-symmetric-transitive closure of
        the inserted pairs (false for unmentioned elements); insert reports `new` iff not yet related; size = sum of
        squared class sizes = number of iterated pairs; full / per-element / per-pair iterations and partition ranges list
        exactly the closure pairs, once each; readers never depend on an outdated cache (every mutator sets the flag);
        extendAndInsert's two post-states as specified. The unbound-sentinel lookup (finding F1) and the unguarded public
        antpostit are proved to misbehave (refuted theorems).
tie:    the REAL EquivalenceRelation (cpp/eqrel_harness.cpp, same protocol as the extracted model's driver) and the model
        run the same generated histories over small and extreme elements; every answer, including the exact iteration
        order, is compared, and the model-independent executable specification (closure of the inserted pairs) is compared
        with the real contains. Concurrent insertions (1-8 OpenMP threads, perturbed schedules) are checked against the
        closure at quiescence (the union-find itself is C29).
"""
import os

import common as C

LEVEL = "proof"
EXT = [-2 ** 31, 2 ** 31 - 1, -1, 0]


def gen_history(rng):
    k = rng.choice([4, 8, 16, 40])
    dom = [rng.range(-50, 50) for _ in range(k)] + (EXT if rng.chance(2, 5) else [])
    el = lambda extra=(): rng.choice(dom + list(extra))
    ops = []
    for _ in range(rng.range(1, 40)):
        r = rng.below(100)
        if r < 45:
            ops.append("i%s:%d:%d" % (rng.choice("AB"), el(), el()))
        elif r < 52:
            ops.append(rng.choice(["mAB", "mBA"]))
        elif r < 60:
            ops.append(rng.choice(["xAB", "xBA"]))
        else:
            b = rng.choice(["", "B"])
            q = rng.choice(["c", "c", "z", "all", "oall", "ant", "oant", "ap", "part", "opart", "ch"])
            if q in ("c", "ap"):
                ops.append("%s%s:%d:%d" % (q, b, el(), el()))
            elif q in ("ant", "oant"):
                ops.append("%s%s:%d" % (q, b, el([77])))
            elif q == "ch":
                ops.append("%s%s:%d" % (q, b, rng.choice([0, 1, 2, 3, 5, 10, 100, 1000])))
            else:
                ops.append(q + b)
    ops += ["oall", "oallB", "z", "zB", "opart", "opartB"]
    return ops


def queries_of(h):
    return [o for o in h if not (o.startswith("iA:") or o.startswith("iB:") or o in ("mAB", "mBA", "xAB", "xBA"))]


def closure_classes(pairs):
    par = {}

    def find(x):
        par.setdefault(x, x)
        while par[x] != x:
            x = par[x]
        return x
    for a, b in pairs:
        ra, rb = find(a), find(b)
        if ra != rb:
            par[ra] = rb
    cls = {}
    for x in list(par):
        cls.setdefault(find(x), []).append(x)
    return list(cls.values())


def main(pid, tier, seed, replay):
    chk = C.Check(pid, LEVEL, tier, seed)
    rng = chk.rng
    harness = C.compile_cpp(os.path.join(C.CPP, "eqrel_harness.cpp"), os.path.join(C.WORK, "bin", "eqrel_harness"))
    conc = C.compile_cpp(os.path.join(C.CPP, "eqrel_conc_harness.cpp"), os.path.join(C.WORK, "bin", "eqrel_conc_harness"))
    chk.proof_stage()
    model = C.ocaml_driver("eqrel")
    n = 1500 if tier == "quick" else 40000
    hist = [gen_history(rng.fork("h%d" % i)) for i in range(n)]
    inp = "".join(" ".join(h) + "\n" for h in hist).encode()
    rc, iout, ierr = C.sh([harness], input=inp, timeout=3000)
    rc2, mout, merr = C.sh([model], input=inp, timeout=3000)
    il, ml = iout.splitlines(), mout.splitlines()
    spec_inp = "".join(" ".join(("s" + o) if (o.startswith("c:") or o.startswith("cB:")) else o for o in h) + "\n" for h in hist).encode()
    rc3, sout, serr = C.sh([model], input=spec_inp, timeout=3000)
    sl = sout.splitlines()
    if rc != 0 or len(il) != len(hist):
        chk.finding(None, "the real EquivalenceRelation crashed (rc=%s) on a history: %s" % (rc, ierr[-200:]), {"history": " ".join(hist[min(len(il), len(hist) - 1)])})
    distinct = set()
    stats = {"histories": 0, "answers": 0, "with_extremes": 0, "with_merge_or_extend": 0}
    for idx, (h, i, m) in enumerate(zip(hist, il, ml)):
        stats["histories"] += 1
        ia, ma = [x.strip() for x in i.split(";")], [x.strip() for x in m.split(";")]
        stats["answers"] += len(ia)
        rep = {"history": " ".join(h), "real": i[:1500], "model": m[:1500]}
        # model-independent predicate: the executable specification (closure of the inserted pairs, `sc`) must give the
        # real structure's contains answers
        bad = None
        sa = [x.strip() for x in sl[idx].split(";")] if idx < len(sl) else []
        cpos = [j for j, o in enumerate(queries_of(h)) if o.startswith("c:") or o.startswith("cB:")]
        for j in cpos:
            if j < len(ia) and j < len(sa) and ia[j] != sa[j]:
                bad = "contains answered %s for query %s, the closure of the inserted pairs says %s" % (ia[j], queries_of(h)[j], sa[j])
                break
        if bad:
            chk.finding(None, "C28 fails on the real EquivalenceRelation: " + bad, rep)
        elif ia != ma:
            k = next((j for j, (x, y) in enumerate(zip(ia, ma)) if x != y), -1)
            chk.violation("real EquivalenceRelation and model disagree (answer %d: real %r, model %r)" % (k, ia[k][:120] if k >= 0 else "", ma[k][:120] if k >= 0 else ""),
                          dict(rep, correspondence="EqRelDefs vs EquivalenceRelation.h"), no_input=True)
        if any(str(e) in " ".join(h) for e in (-2 ** 31, 2 ** 31 - 1)):
            stats["with_extremes"] += 1
        if any(o in ("mAB", "mBA", "xAB", "xBA") for o in h):
            stats["with_merge_or_extend"] += 1
        if sum(1 for o in h if o[0] == "i") >= 3:
            distinct.add(" ".join(h))
        if len(chk.samples) < 2 and "xAB" in h:
            chk.sample(rep)
    # concurrent insertions: predicate at quiescence
    cc = []
    for i in range(24 if tier == "quick" else 400):
        r = rng.fork("c%d" % i)
        cc.append((r.range(1, 8), r.next() % 100000, r.choice([6, 30, 300]), r.choice([50, 2000])))
    for pert in (None, "1"):
        rc, out, err = C.sh([conc], input="".join("%d %d %d %d\n" % c for c in cc).encode(), timeout=3000, env={"SOUFFLE_VERIF_PERTURB": pert} if pert else None)
        lines = out.splitlines()
        for c, l in zip(cc, lines):
            if not l.startswith("ok"):
                chk.finding(None, "C28 fails under concurrent insertion: %s" % l[:300], {"threads,seed,elements,inserts_per_thread": c, "perturb": pert})
        if rc != 0 or len(lines) != len(cc):
            chk.finding(None, "concurrent eqrel harness crashed (rc=%s)" % rc, {"case": cc[min(len(lines), len(cc) - 1)], "perturb": pert})
    chk.cov.update({"evaluations": len(hist) + 2 * len(cc), "distinct_nontrivial": len(distinct),
                    "rule": "histories over two relations: inserts (45%), insertAll / extendAndInsert (15%), queries (contains, size, full / per-element / per-pair iteration in exact order, partition ranges, "
                            "specification closure) over 4-40 small elements plus the 32-bit extremes; non-trivial = distinct history with at least 3 inserts; concurrent: 1-8 threads inserting random pairs, closure checked at quiescence",
                    "traces_validated_against_impl": len(ml), "stats": stats, "concurrent_histories": 2 * len(cc)})
    chk.assumptions = ["g++'s right-to-left evaluation of toDense(x), toDense(y) (affects only dense numbering / iteration order)", "concurrent behaviour: predicate at quiescence only; the union-find's interleavings are C29"]
    return chk.finish(["Coq 8.16.1 kernel; Properties_C28.v closed under the global context", "extraction ExtrOcamlBasic; ocaml/eqrel_driver.ml",
                       "cpp/eqrel_harness.cpp (protocol twin of the model driver), cpp/eqrel_conc_harness.cpp (evaluates the closure predicate in C++)",
                       "modelled: EquivalenceRelation.h over a sequential reading of UnionFind.h / PiggyList.h; LambdaBTree's sparse map as an association list"])
