#!/bin/sh
# Confirms a seeded change in a scratch worktree (never in /repo): applies the patch, rebuilds the given ninja targets, runs the
# given ctest selection (must pass), runs the demonstration (must FAIL), reverts, rebuilds, runs the demonstration (must PASS).
# usage: confirm_seed.sh <worktree> <patch> "<ninja targets>" "<ctest -R regex>" "<ctest -E regex or ->" "<demo command>" <log>
# prints one summary line:  CONFIRM <patch> build=<rc> tests=<passed>/<total> demo_with=<rc> demo_without=<rc>
wt="$1"; patch="$2"; targets="$3"; rx="$4"; ex="$5"; demo="$6"; log="$7"
cd "$wt" || exit 2
git checkout -- . >/dev/null 2>&1
: > "$log"
git apply "$patch" >> "$log" 2>&1 || { echo "CONFIRM $patch patch-does-not-apply"; exit 1; }
ninja -C _b -j6 $targets >> "$log" 2>&1; b=$?
if [ "$ex" = "-" ]; then ctest --test-dir _b -j6 --timeout 3000 -R "$rx" > "$log.tests" 2>&1; else ctest --test-dir _b -j6 --timeout 3000 -R "$rx" -E "$ex" > "$log.tests" 2>&1; fi
t=$(grep "tests passed" "$log.tests" | sed 's/.*, \([0-9]*\) tests failed out of \([0-9]*\).*/\1 failed of \2/')
sh -c "$demo" > "$log.demo_with" 2>&1; dw=$?
git checkout -- . >> "$log" 2>&1
ninja -C _b -j6 $targets >> "$log" 2>&1
sh -c "$demo" > "$log.demo_without" 2>&1; dn=$?
echo "CONFIRM $patch build=$b tests=[$t] demo_with_patch_exit=$dw demo_without_patch_exit=$dn"
