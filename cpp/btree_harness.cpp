// C25 / C26: drives the REAL btree_set / btree_delete_set (small block size => frequent splits),
// dumps the real node graph for the proved `wf` validator (coq/theories/BTreeDefs.v) and prints API results.
//
// stdin, one history per line:
//   seq <plain|delete> <hints 0/1> <ops...>     ops: i:a:b  e:a:b (delete only)  c:a:b  l:a:b  u:a:b  d (dump)  z (size) p:n (partition into n chunks)
//   par <plain|delete> <hints 0/1> <nthreads> <seed> <switch%> | i:a:b ... | i:a:b ... |   concurrent inserts under the deterministic scheduler
// stdout per history: one line of space separated results in op order:
//   i -> t/f   e -> number erased   c -> t/f   l,u -> key or `end`   z -> n   d -> tree dump   p -> chunk lists `{k k k}{k k}`
//   par -> `T<tid>:t/f...` per thread, then `steps <n>`, then the final dump, size, full iteration `iter k k k`, check() result
// keys are tuples (a,b) of RamDomain, printed as one integer (a+2^31)*2^32 + (b+2^31) (monotone in the tuple order).
#include <atomic>
#include <cstdint>
#include <iostream>
#include <sstream>
#include <string>
#include <vector>
#include "souffle/RamTypes.h"
#include "souffle/utility/StreamUtil.h"
#include "souffle/datastructure/BTree.h"
#include "souffle/datastructure/BTreeDelete.h"
#include "souffle/utility/ContainerUtil.h"
#include "vsched.h"

using namespace souffle;
using Key = Tuple<RamDomain, 2>;
constexpr unsigned BLOCK = 56;  // sizeof(base)=32 on x86-64 => (56-32)/8 = 3 keys per node (the minimum), see maxKeys below

static std::string enc(const Key& k) {
    unsigned long long a = (unsigned long long)((long long)k[0] + 2147483648LL);
    unsigned long long b = (unsigned long long)((long long)k[1] + 2147483648LL);
    __int128 v = ((__int128)a << 32) + b;
    std::string s;
    if (v == 0) return "0";
    while (v > 0) {
        s.insert(s.begin(), char('0' + (int)(v % 10)));
        v /= 10;
    }
    return s;
}

template <typename Base>
struct Tree : public Base {
    using node = typename Base::node;
    static constexpr std::size_t maxKeys() {
        return node::maxKeys;
    }
    void dumpNode(const node* n, std::ostream& out) const {
        if (n->isLeaf()) {
            out << "(L";
            for (unsigned i = 0; i < n->numElements; ++i) out << " " << enc(n->keys[i]);
            out << ")";
        } else {
            out << "(I ";
            dumpNode(n->getChild(0), out);
            for (unsigned i = 0; i < n->numElements; ++i) {
                out << " " << enc(n->keys[i]) << " ";
                dumpNode(n->getChild(i + 1), out);
            }
            out << ")";
        }
    }
    std::string dump() const {
        if (this->root == nullptr) return "E";
        std::ostringstream out;
        dumpNode(this->root, out);
        return out.str();
    }
    // structural facts the validator cannot see in the dump: parent/position links and the leftmost pointer
    bool links() const {
        if (this->root == nullptr) return this->leftmost == nullptr;
        if (this->root->parent != nullptr) return false;
        const node* l = this->root;
        while (!l->isLeaf()) l = l->getChild(0);
        if (l != this->leftmost) return false;
        return linksRec(this->root);
    }
    bool linksRec(const node* n) const {
        if (n->isLeaf()) return true;
        for (unsigned i = 0; i <= n->numElements; ++i) {
            const node* c = n->getChild(i);
            if (c->parent != n || c->position != i) return false;
            if (!linksRec(c)) return false;
        }
        return true;
    }
};

static Key parseKey(const std::string& s, std::size_t from) {
    auto c = s.find(':', from);
    return Key{(RamDomain)std::stoll(s.substr(from, c - from)), (RamDomain)std::stoll(s.substr(c + 1))};
}

template <typename T>
static std::string bound(const T& t, typename T::iterator it) {
    return it == t.end() ? std::string("end") : enc(*it);
}

template <typename T, bool CanErase>
static void runSeq(bool hints, std::stringstream& ls) {
    T t;
    typename T::operation_hints h;
    std::string op;
    bool first = true;
    while (ls >> op) {
        if (!first) std::cout << " | ";
        first = false;
        char k = op[0];
        if (k == 'i') {
            Key x = parseKey(op, 2);
            std::cout << ((hints ? t.insert(x, h) : t.insert(x)) ? "t" : "f");
        } else if (k == 'e') {
            if constexpr (CanErase) {
                std::cout << t.erase(parseKey(op, 2));
                h.clear();  // BTreeDelete.h: hints must be cleared when nodes may have been deleted
            } else {
                std::cout << "na";
            }
        } else if (k == 'c') {
            Key x = parseKey(op, 2);
            std::cout << ((hints ? t.contains(x, h) : t.contains(x)) ? "t" : "f");
        } else if (k == 'l') {
            Key x = parseKey(op, 2);
            std::cout << bound(t, hints ? t.lower_bound(x, h) : t.lower_bound(x));
        } else if (k == 'u') {
            Key x = parseKey(op, 2);
            std::cout << bound(t, hints ? t.upper_bound(x, h) : t.upper_bound(x));
        } else if (k == 'z') {
            std::cout << t.size();
        } else if (k == 'd') {
            std::cout << "dump=" << t.dump() << "=" << (t.links() ? "links-ok" : "LINKS-BAD") << "=" << (t.check() ? "check-ok" : "CHECK-BAD");
        } else if (k == 'p') {
            int n = std::stoi(op.substr(2));
            std::cout << "chunks=";
            for (auto& c : t.partition(n)) {
                std::cout << "{";
                bool f = true;
                for (auto& x : c) {
                    std::cout << (f ? "" : ",") << enc(x);
                    f = false;
                }
                std::cout << "}";
            }
        }
    }
    std::cout << "\n";
}

template <typename T>
static void runPar(bool hints, int n, uint64_t seed, int sw, const std::vector<std::vector<Key>>& keys) {
    T t;
    vsched::Scheduler S;
    S.rng = vsched::Rng(seed);
    S.switchPercent = sw;
    S.maxSteps = 100000;
    std::vector<std::string> res(n);
    std::vector<std::function<void()>> bodies;
    for (int i = 0; i < n; ++i) {
        bodies.push_back([&, i] {
            typename T::operation_hints h;
            for (auto& k : keys[i]) res[i] += (hints ? t.insert(k, h) : t.insert(k)) ? "t" : "f";
        });
    }
    S.run(bodies);
    for (int i = 0; i < n; ++i) std::cout << "T" << i << ":" << res[i] << " ";
    std::cout << "steps " << S.taken.size() << (S.stuck ? " STUCK" : "") << " dump=" << t.dump() << "=" << (t.links() ? "links-ok" : "LINKS-BAD") << "="
              << (t.check() ? "check-ok" : "CHECK-BAD") << " size " << t.size() << " iter";
    for (auto& x : t) std::cout << " " << enc(x);
    std::cout << "\n";
}

int main() {
    using Plain = Tree<btree_set<Key, detail::comparator<Key>, std::allocator<Key>, BLOCK>>;
    using Del = Tree<btree_delete_set<Key, detail::comparator<Key>, std::allocator<Key>, BLOCK>>;
    // wide nodes (12 keys: the smallest capacity whose minKeys is 2, so that a node underflows while it still holds a key and
    // borrowing from a sibling has keys / children to shift -- with 3..11 keys per node a node only underflows when empty)
    using PlainW = Tree<btree_set<Key, detail::comparator<Key>, std::allocator<Key>, BLOCK + 72>>;
    using DelW = Tree<btree_delete_set<Key, detail::comparator<Key>, std::allocator<Key>, BLOCK + 72>>;
    std::string line;
    while (std::getline(std::cin, line)) {
        if (line == "maxkeys") {
            std::cout << Plain::maxKeys() << " " << Del::maxKeys() << " " << PlainW::maxKeys() << " " << DelW::maxKeys() << "\n";
            continue;
        }
        std::stringstream ls(line);
        std::string mode, kind;
        int hints;
        ls >> mode >> kind >> hints;
        if (mode == "seq") {
            if (kind == "plain")
                runSeq<Plain, false>(hints, ls);
            else if (kind == "plainw")
                runSeq<PlainW, false>(hints, ls);
            else if (kind == "deletew")
                runSeq<DelW, true>(hints, ls);
            else
                runSeq<Del, true>(hints, ls);
        } else if (mode == "par") {
            int n, sw;
            uint64_t seed;
            ls >> n >> seed >> sw;
            std::string rest;
            std::getline(ls, rest);
            std::vector<std::vector<Key>> keys;
            std::stringstream rs(rest);
            std::string seg;
            std::getline(rs, seg, '|');  // text before the first bar
            while (std::getline(rs, seg, '|')) {
                std::vector<Key> ks;
                std::stringstream ss(seg);
                std::string op;
                while (ss >> op) ks.push_back(parseKey(op, 2));
                keys.push_back(ks);
            }
            keys.resize(n);
            if (kind == "plain")
                runPar<Plain>(hints, n, seed, sw, keys);
            else if (kind == "plainw")
                runPar<PlainW>(hints, n, seed, sw, keys);
            else if (kind == "deletew")
                runPar<DelW>(hints, n, seed, sw, keys);
            else
                runPar<Del>(hints, n, seed, sw, keys);
        }
        std::cout.flush();
    }
    return 0;
}
