// Deterministic cooperative scheduler for the instrumented (-DSOUFFLE_VERIF) data structures.
// Real threads run the real code; SOUFFLE_VERIF_YIELD(tag, addr) -- placed immediately before every
// atomic operation -- parks the thread until the scheduler picks it. The scheduler waits until every
// live thread is parked (or finished), then releases exactly one: that thread performs ONE atomic
// operation and runs on to its next yield point. Hence one schedule entry = one atomic step, which
// is exactly the step granularity of the Coq models (LockDefs.step, UnionFindDefs.step, ...).
//
// Blocking primitives: a yield tagged "*.lock" announces an attempt to acquire the mutex at `addr`
// and a yield tagged "*.unlock" its release; a thread parked at a lock whose address is held is not
// runnable. (Used for the lanes of the concurrent hash map.)
#pragma once
#include "souffle/utility/VerifHooks.h"
#include <condition_variable>
#include <cstdint>
#include <cstdio>
#include <cstdlib>
#include <cstring>
#include <functional>
#include <iostream>
#include <map>
#include <mutex>
#include <string>
#include <thread>
#include <vector>

namespace vsched {

struct Rng {
    uint64_t s;
    explicit Rng(uint64_t seed) : s(seed) {}
    uint64_t next() {
        s += 0x9E3779B97F4A7C15ULL;
        uint64_t z = s;
        z = (z ^ (z >> 30)) * 0xBF58476D1CE4E5B9ULL;
        z = (z ^ (z >> 27)) * 0x94D049BB133111EBULL;
        return z ^ (z >> 31);
    }
    uint64_t below(uint64_t n) {
        return n ? next() % n : 0;
    }
};

enum State { NOT_STARTED, PARKED, RUNNING, FINISHED };

struct Event {
    int tid;
    std::string tag;
};

class Scheduler {
public:
    std::mutex m;
    std::condition_variable cv;
    std::vector<State> state;
    std::vector<std::string> parkedTag;
    std::vector<const void*> parkedAddr;
    std::map<const void*, int> held;  // mutex address -> owner tid
    std::vector<Event> taken;         // the schedule as executed: (tid, tag of the atomic op performed)
    std::vector<int> replay;          // if non-empty: follow this schedule (entries naming non-runnable threads are skipped)
    std::size_t replayPos = 0;
    Rng rng{1};
    int switchPercent = 50;  // probability (in %) to leave the thread that ran last
    int last = -1;
    std::size_t maxSteps = 30000;
    bool stuck = false;  // no runnable thread although some are unfinished (deadlock), or step budget exhausted
    bool exitOnStuck = true;

    static Scheduler*& instance() {
        static Scheduler* s = nullptr;
        return s;
    }
    static int& myTid() {
        static thread_local int t = -1;
        return t;
    }

    static void hook(const char* tag, const void* addr) {
        Scheduler* s = instance();
        int t = myTid();
        if (s == nullptr || t < 0) return;  // thread not under control (e.g. main thread building the structure)
        s->park(t, tag, addr);
    }

    void park(int t, const char* tag, const void* addr) {
        std::unique_lock<std::mutex> lk(m);
        std::size_t n = std::strlen(tag);
        bool isUnlock = n >= 7 && std::strcmp(tag + n - 7, ".unlock") == 0;
        bool isAcquired = n >= 9 && std::strcmp(tag + n - 9, ".acquired") == 0;
        if (isAcquired) {  // report of a successful try_lock (or of a lock already taken): bookkeeping only
            held[addr] = t;
            return;
        }
        state[t] = PARKED;
        parkedTag[t] = tag;
        parkedAddr[t] = addr;
        cv.notify_all();
        cv.wait(lk, [&] { return state[t] == RUNNING; });
        bool isLock = n >= 5 && std::strcmp(tag + n - 5, ".lock") == 0 && !(n >= 9 && std::strcmp(tag + n - 9, ".try_lock") == 0);
        if (isLock) held[addr] = t;
        if (isUnlock) held.erase(addr);  // a release is a scheduling point too; it takes effect when the thread is resumed
    }

    bool runnable(int t) {
        if (state[t] != PARKED) return false;
        const std::string& tag = parkedTag[t];
        const bool tryLock = tag.size() >= 9 && tag.compare(tag.size() - 9, 9, ".try_lock") == 0;
        if (!tryLock && tag.size() >= 5 && tag.compare(tag.size() - 5, 5, ".lock") == 0) {
            auto it = held.find(parkedAddr[t]);
            if (it != held.end() && it->second != t) return false;
        }
        return true;
    }

    // run the thread bodies to completion under the scheduler
    void run(const std::vector<std::function<void()>>& bodies) {
        const int n = (int)bodies.size();
        state.assign(n, NOT_STARTED);
        parkedTag.assign(n, "");
        parkedAddr.assign(n, nullptr);
        instance() = this;
        souffle::verif::yieldHook().store(&Scheduler::hook);
        std::vector<std::thread> threads;
        for (int t = 0; t < n; ++t) {
            threads.emplace_back([this, t, &bodies] {
                myTid() = t;
                {
                    std::unique_lock<std::mutex> lk(m);
                    state[t] = RUNNING;
                }
                bodies[t]();
                std::unique_lock<std::mutex> lk(m);
                state[t] = FINISHED;
                cv.notify_all();
            });
        }
        {
            std::unique_lock<std::mutex> lk(m);
            while (true) {
                cv.wait(lk, [&] {
                    for (int t = 0; t < n; ++t)
                        if (state[t] == NOT_STARTED || state[t] == RUNNING) return false;
                    return true;
                });
                std::vector<int> cand;
                for (int t = 0; t < n; ++t)
                    if (runnable(t)) cand.push_back(t);
                bool anyLive = false;
                for (int t = 0; t < n; ++t) anyLive |= state[t] != FINISHED;
                if (!anyLive) break;
                int pick = -1;
                if (!replay.empty()) {
                    while (replayPos < replay.size() && pick < 0) {
                        int t = replay[replayPos++];
                        if (t >= 0 && t < n && runnable(t)) pick = t;
                    }
                    // replay schedule used up: finish the run round-robin (this is not a livelock)
                    if (pick < 0 && !cand.empty()) pick = cand[taken.size() % cand.size()];
                } else if (!cand.empty()) {
                    bool stay = last >= 0 && runnable(last) && (int)rng.below(100) >= switchPercent;
                    pick = stay ? last : cand[rng.below(cand.size())];
                }
                if (pick < 0 || taken.size() >= maxSteps) {
                    // deadlock or step budget exhausted (livelock): the threads cannot be finished, so the process reports
                    // the case as its answer line and exits with status 3; the python side restarts the harness on the
                    // remaining cases (common.run_resumable)
                    stuck = true;
                    if (exitOnStuck) {
                        std::string line = "STUCK-EXIT steps=" + std::to_string(taken.size()) + (pick < 0 ? " deadlock" : " step-budget") + " sched";
                        for (std::size_t k = 0; k < taken.size() && k < 400; ++k) line += " " + std::to_string(taken[k].tid);
                        line += "\n";
                        std::cout << line << std::flush;
                        std::_Exit(3);
                    }
                    souffle::verif::yieldHook().store(nullptr);
                    instance() = nullptr;
                    for (int t = 0; t < n; ++t)
                        if (state[t] == PARKED) state[t] = RUNNING;
                    cv.notify_all();
                    break;
                }
                taken.push_back({pick, parkedTag[pick]});
                last = pick;
                state[pick] = RUNNING;
                cv.notify_all();
            }
        }
        for (auto& th : threads) th.join();
        souffle::verif::yieldHook().store(nullptr);
        instance() = nullptr;
    }
};

}  // namespace vsched
