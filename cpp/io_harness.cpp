// Unit-level harness around Souffle's real fact readers / writers (C17, C18).
// Built against /repo/src/include on every run. Protocol (stdin, one command per line):
//   num <si|un|fl> <hex>          one-column relation of that type, file content = bytes + "\n",
//                                  read through ReadStreamCSV::readAll  ->  "ok <v>" | "err <msg-hex>" | "rows <n>"
//   write <cfg> <ncols> <types...> <nrows> <hexfield>...   (see c17)  -> "out <hex of bytes written>"
//   read  <cfg> <ncols> <types...> <hex of file>           -> "tuples <n> <hexfield>..." | "err <hex>"
// cfg = comma separated key=value pairs (rfc4180=true, delimiter given in hex as delimiter=x2c).
#include "souffle/RamTypes.h"
#include "souffle/RecordTable.h"
#include "souffle/SymbolTable.h"
#include "souffle/datastructure/RecordTableImpl.h"
#include "souffle/datastructure/SymbolTableImpl.h"
#include "souffle/io/ReadStreamCSV.h"
#include "souffle/io/WriteStreamCSV.h"
#include <cstdio>
#include <fstream>
#include <iostream>
#include <map>
#include <sstream>
#include <string>
#include <vector>

using namespace souffle;

static std::string unhex(const std::string& h) {
    std::string r;
    for (std::size_t i = 0; i + 1 < h.size(); i += 2) r.push_back((char)std::stoi(h.substr(i, 2), nullptr, 16));
    return r;
}
static std::string hex(const std::string& s) {
    static const char* d = "0123456789abcdef";
    std::string r;
    for (unsigned char c : s) {
        r.push_back(d[c >> 4]);
        r.push_back(d[c & 15]);
    }
    return r;
}

struct Collector {
    std::size_t arity;
    std::vector<std::vector<RamDomain>> rows;
    void insert(const RamDomain* t) {
        rows.emplace_back(t, t + arity);
    }
};

// Type environment used by every command: records P=[i,s], Q=[P,u] ; ADT A = X{i} | Y{s,P} ; enum E = R|G|B.
static const char* TYPES_TAIL =
        "\"ADTs\": {\"+:A\": {\"arity\": 2, \"branches\": [{\"name\": \"X\", \"types\": [\"i:number\"]}, {\"name\": "
        "\"Y\", \"types\": [\"s:symbol\", \"r:P\"]}], \"enum\": false}, \"+:E\": {\"arity\": 3, \"branches\": "
        "[{\"name\": \"B\", \"types\": []}, {\"name\": \"G\", \"types\": []}, {\"name\": \"R\", \"types\": []}], "
        "\"enum\": true}}, \"records\": {\"r:P\": {\"arity\": 2, \"types\": [\"i:number\", \"s:symbol\"]}, \"r:Q\": "
        "{\"arity\": 2, \"types\": [\"r:P\", \"u:unsigned\"]}}";

static std::map<std::string, std::string> mkop(const std::vector<std::string>& types, const std::string& cfg) {
    std::map<std::string, std::string> op;
    std::stringstream t, p;
    t << "{" << TYPES_TAIL << ", \"relation\": {\"arity\": " << types.size() << ", \"types\": [";
    p << "{\"records\": {\"P\": {\"arity\": 2, \"params\": [\"a\", \"b\"]}, \"Q\": {\"arity\": 2, \"params\": [\"p\", "
         "\"u\"]}}, \"relation\": {\"arity\": "
      << types.size() << ", \"params\": [";
    std::string names;
    for (std::size_t i = 0; i < types.size(); ++i) {
        t << (i ? ", " : "") << "\"" << types[i] << "\"";
        p << (i ? ", " : "") << "\"c" << i << "\"";
        names += (i ? "\t" : "") + std::string("c") + std::to_string(i);
    }
    t << "]}}";
    p << "]}}";
    op["types"] = t.str();
    op["params"] = p.str();
    op["attributeNames"] = names;
    op["auxArity"] = "0";
    op["name"] = "r";
    op["IO"] = "file";
    std::stringstream cs(cfg);
    std::string kv;
    while (std::getline(cs, kv, ',')) {
        auto eq = kv.find('=');
        if (eq == std::string::npos) continue;
        std::string k = kv.substr(0, eq), v = kv.substr(eq + 1);
        if (k == "delimiter") v = unhex(v);
        op[k] = v;
    }
    return op;
}

static std::string TMP;
static std::string slurp(const std::string& p) {
    std::ifstream f(p, std::ios::binary);
    std::stringstream b;
    b << f.rdbuf();
    return b.str();
}
static void spit(const std::string& p, const std::string& c) {
    std::ofstream f(p, std::ios::binary | std::ios::trunc);
    f << c;
}
// read file content `content` with the real ReadFileCSV under configuration cfg
static void readWith(const std::vector<std::string>& types, const std::string& cfg, const std::string& content,
        SymbolTable& st, RecordTable& rt, Collector& c) {
    auto op = mkop(types, cfg);
    op["filename"] = TMP + "/in.facts";
    spit(op["filename"], content);
    ReadFileCSV rs(op, st, rt);
    rs.readAll(c);
}
static std::string writeWith(const std::vector<std::string>& types, const std::string& cfg, SymbolTable& st,
        RecordTable& rt, const Collector& c) {
    auto op = mkop(types, cfg);
    op["filename"] = TMP + "/out.csv";
    {
        WriteFileCSV ws(op, st, rt);
        ws.writeAll(c.rows);
    }
    return slurp(op["filename"]);
}

int main(int argc, char** argv) {
    TMP = argc > 1 ? argv[1] : ".";
    std::string line;
    while (std::getline(std::cin, line)) {
        std::stringstream ls(line);
        std::string cmd;
        ls >> cmd;
        if (cmd == "num") {
            std::string kind, h;
            ls >> kind >> h;
            std::string ty = kind == "si" ? "i:number" : kind == "un" ? "u:unsigned" : "f:float";
            try {
                SymbolTableImpl st;
                SpecializedRecordTable<0, 1, 2> rt;
                Collector c{1, {}};
                readWith({ty}, "", unhex(h) + "\n", st, rt, c);
                if (c.rows.size() != 1) {
                    std::cout << "rows " << c.rows.size() << "\n";
                } else if (kind == "si") {
                    std::cout << "ok " << c.rows[0][0] << "\n";
                } else {
                    std::cout << "ok " << ramBitCast<RamUnsigned>(c.rows[0][0]) << "\n";
                }
            } catch (std::exception& e) {
                std::cout << "err " << hex(e.what()) << "\n";
            }
        } else if (cmd == "rt") {
            // rt <cfg> <ncols> <types...> <hex>: parse <hex> (default tab text) with the real default reader,
            // write the tuples with cfg, read that file back with cfg, and print all three in default text.
            std::string cfg, h;
            std::size_t ncols;
            ls >> cfg >> ncols;
            std::vector<std::string> types(ncols);
            for (auto& t : types) ls >> t;
            ls >> h;
            if (cfg == "-") cfg = "";
            try {
                SymbolTableImpl st;
                SpecializedRecordTable<0, 1, 2> rt;
                Collector c0{ncols, {}}, c1{ncols, {}};
                readWith(types, "", unhex(h), st, rt, c0);
                std::string canon0 = writeWith(types, "", st, rt, c0);
                std::string written = writeWith(types, cfg, st, rt, c0);
                std::cout << "written " << c0.rows.size() << " " << hex(canon0) << " " << hex(written);
                try {
                    readWith(types, cfg, written, st, rt, c1);
                    std::string canon1 = writeWith(types, "", st, rt, c1);
                    bool same = c0.rows == c1.rows;
                    std::cout << " back " << c1.rows.size() << " " << (same ? "same" : "DIFF") << " " << hex(canon1) << "\n";
                } catch (std::exception& e) {
                    std::cout << " backerr " << hex(e.what()) << "\n";
                }
            } catch (std::exception& e) {
                std::cout << "err " << hex(e.what()) << "\n";
            }
        } else if (cmd == "read") {
            // read <cfg> <ncols> <types...> <hex of file>: real reader under cfg; tuples printed in default text
            std::string cfg, h;
            std::size_t ncols;
            ls >> cfg >> ncols;
            std::vector<std::string> types(ncols);
            for (auto& t : types) ls >> t;
            ls >> h;
            if (cfg == "-") cfg = "";
            try {
                SymbolTableImpl st;
                SpecializedRecordTable<0, 1, 2> rt;
                Collector c{ncols, {}};
                readWith(types, cfg, unhex(h), st, rt, c);
                std::cout << "tuples " << c.rows.size() << " " << hex(writeWith(types, "", st, rt, c)) << "\n";
            } catch (std::exception& e) {
                std::cout << "err " << hex(e.what()) << "\n";
            }
        } else {
            std::cout << "unknown\n";
        }
        std::cout.flush();
    }
    return 0;
}
