// Reference harness: runs the eqrel protocol against the real EquivalenceRelation.h
#include "souffle/RamTypes.h"
#include "souffle/SouffleInterface.h"
#include "souffle/datastructure/EquivalenceRelation.h"
#include <iostream>
#include <sstream>
#include <algorithm>
#include <string>
#include <vector>
using namespace souffle;
using T = Tuple<RamDomain, 2>;
using ER = EquivalenceRelation<T>;
typedef std::vector<std::pair<long,long>> PL;
static std::string pl(PL v, bool sorted) {
    if (sorted) std::sort(v.begin(), v.end());
    std::string s; bool f = true;
    for (auto& p : v) { if (!f) s += " "; f = false; s += std::to_string(p.first) + "," + std::to_string(p.second); }
    return s;
}
template <class It> PL collect(It b, It e) { PL v; for (; b != e; ++b) v.push_back({(*b)[0], (*b)[1]}); return v; }
static std::vector<std::string> split(const std::string& s, char c) {
    std::vector<std::string> r; std::string cur; for (char ch : s) { if (ch == c) { r.push_back(cur); cur.clear(); } else cur += ch; } r.push_back(cur); return r; }
int main() {
    std::string line;
    while (std::getline(std::cin, line)) {
        ER* A = new ER(); ER* B = new ER();
        std::vector<std::string> out;
        std::istringstream is(line); std::string tok;
        while (is >> tok) {
            auto f = split(tok, ':');
            std::string k = f[0];
            bool onB = false;
            // mutators
            if (k == "iA" || k == "iB") { (k == "iA" ? A : B)->insert((RamDomain)std::stol(f[1]), (RamDomain)std::stol(f[2])); continue; }
            if (k == "mAB") { A->insertAll(*B); continue; }
            if (k == "mBA") { B->insertAll(*A); continue; }
            if (k == "xAB") { A->extendAndInsert(*B); continue; }
            if (k == "xBA") { B->extendAndInsert(*A); continue; }
            if (k.size() > 1 && k.back() == 'B') { onB = true; k.pop_back(); }
            ER* R = onB ? B : A;
            if (k == "c") { out.push_back(R->contains((RamDomain)std::stol(f[1]), (RamDomain)std::stol(f[2])) ? "t" : "f"); }
            else if (k == "z") { out.push_back(std::to_string(R->size())); }
            else if (k == "all" || k == "oall") { out.push_back(pl(collect(R->begin(), R->end()), k == "all")); }
            else if (k == "ant" || k == "oant") { T t; t[0] = (RamDomain)std::stol(f[1]); t[1] = 0; auto r = R->getBoundaries<1>(t); out.push_back(pl(collect(r.begin(), r.end()), k == "ant")); }
            else if (k == "ap") { T t; t[0] = (RamDomain)std::stol(f[1]); t[1] = (RamDomain)std::stol(f[2]); auto r = R->getBoundaries<2>(t); out.push_back(pl(collect(r.begin(), r.end()), true)); }
            else if (k == "lb") { T t; t[0] = (RamDomain)std::stol(f[1]); t[1] = (RamDomain)std::stol(f[2]); out.push_back(pl(collect(R->lower_bound(t), R->end()), false)); }
            else if (k == "ch") { auto v = R->partition(std::stoul(f[1])); std::string s; for (auto& r : v) s += "[" + pl(collect(r.begin(), r.end()), false) + "]"; out.push_back(s); }
            else if (k == "part" || k == "opart") {
                // classes: group the full iteration by first component's class using partition(huge)?  Use WITHIN iterators via partition(#classes)
                // simpler: derive classes from the ALL iteration order: consecutive anterior groups
                PL v = collect(R->begin(), R->end());
                std::vector<std::vector<long>> cls; 
                size_t i = 0;
                while (i < v.size()) { // first anterior of a class: its posteriors enumerate the class
                    long a = v[i].first; std::vector<long> c; size_t j = i; while (j < v.size() && v[j].first == a) { c.push_back(v[j].second); j++; }
                    cls.push_back(c); i += c.size() * c.size(); }
                if (k == "part") { for (auto& c : cls) std::sort(c.begin(), c.end()); std::sort(cls.begin(), cls.end()); }
                std::string s; for (auto& c : cls) { s += "{"; bool fi = true; for (long e : c) { if (!fi) s += ","; fi = false; s += std::to_string(e); } s += "}"; }
                out.push_back(s);
            }
            else out.push_back("?");
        }
        std::string o; for (size_t i = 0; i < out.size(); i++) { if (i) o += " ; "; o += out[i]; }
        std::cout << o << "\n";
        delete A; delete B;
    }
}
