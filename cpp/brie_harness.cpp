// C27: drives the REAL souffle::Trie<Dim> (Brie.h), sequentially, with the history format of ocaml/brie_driver.ml.
//
// stdin: one history per line: "<dim> <mode> <ops>"   (mode is ignored here: the header compiled in is what /repo has now)
//   ops = i:a,b,..  insert      c:a,b,..  contains      z  size      it  full iteration
//         p:a,..    all tuples starting with the given prefix (getBoundaries<k>), "p:" = all
// stdout: the answers separated by " ; ": insert -> t/f (was new), contains -> t/f, size -> n,
//         iteration/prefix -> tuples "a,b a,b ..." in the structure's iteration order.
// Each operation uses the overload without an op_context (fresh context per operation), like the model.
#include <array>
#include <cstdint>
#include <iostream>
#include <sstream>
#include <string>
#include <vector>
#include "souffle/RamTypes.h"
#include "souffle/datastructure/Brie.h"
#include "vsched.h"

using namespace souffle;

static std::vector<long long> parseTuple(const std::string& s) {
    std::vector<long long> r;
    if (s.empty()) return r;
    std::stringstream ss(s);
    std::string x;
    while (std::getline(ss, x, ',')) r.push_back(std::stoll(x));
    return r;
}

template <unsigned Dim>
static std::string show(const typename Trie<Dim>::entry_type& t) {
    std::string s;
    for (unsigned i = 0; i < Dim; ++i) {
        if (i) s += ",";
        s += std::to_string((long long)t[i]);
    }
    return s;
}

template <unsigned Dim, unsigned K>
static std::string prefix(const Trie<Dim>& trie, const std::vector<long long>& v) {
    if constexpr (K > Dim) {
        return "bad";
    } else {
        if (v.size() != K) {
            if constexpr (K < Dim) return prefix<Dim, K + 1>(trie, v);
            return "bad";
        }
        typename Trie<Dim>::entry_type e{};
        for (unsigned i = 0; i < K; ++i) e[i] = (RamDomain)v[i];
        std::string s;
        bool first = true;
        for (const auto& t : trie.template getBoundaries<K>(e)) {
            if (!first) s += " ";
            first = false;
            s += show<Dim>(t);
        }
        return s;
    }
}

template <unsigned Dim>
static std::string runHistory(const std::vector<std::string>& ops) {
    Trie<Dim> trie;
    std::string out;
    bool firstOp = true;
    for (const auto& w : ops) {
        std::string ans;
        if (w == "z") {
            ans = std::to_string(trie.size());
        } else if (w == "it") {
            bool first = true;
            for (const auto& t : trie) {
                if (!first) ans += " ";
                first = false;
                ans += show<Dim>(t);
            }
        } else if (w.size() >= 2 && w[1] == ':') {
            auto v = parseTuple(w.substr(2));
            if (w[0] == 'p') {
                ans = prefix<Dim, 0>(trie, v);
            } else {
                if (v.size() != Dim) return "bad";
                typename Trie<Dim>::entry_type e{};
                for (unsigned i = 0; i < Dim; ++i) e[i] = (RamDomain)v[i];
                if (w[0] == 'i')
                    ans = trie.insert(e) ? "t" : "f";
                else if (w[0] == 'c')
                    ans = trie.contains(e) ? "t" : "f";
                else
                    return "bad";
            }
        } else {
            return "bad";
        }
        if (!firstOp) out += " ; ";
        firstOp = false;
        out += ans;
    }
    return out;
}

// concurrent insertion under the deterministic scheduler (hook H5: one schedule entry = one atomic operation of Brie.h)
//   par <dim> <ctx 0/1> <nthreads> <seed> <switch%> <chunks> | i:a,b i:a,b | i:a,b ... |
// prints: T<tid>:t/f... per thread ; steps n [STUCK] ; size ; full iteration ; contains of every inserted tuple (t/f string) ;
//         partition(chunks) as {a,b a,b}{...}
template <unsigned Dim>
static std::string runPar(bool useCtx, int n, uint64_t seed, int sw, int chunks, const std::vector<std::vector<std::vector<long long>>>& keys) {
    using E = typename Trie<Dim>::entry_type;
    Trie<Dim> trie;
    vsched::Scheduler S;
    S.rng = vsched::Rng(seed);
    S.switchPercent = sw;
    S.maxSteps = 100000;
    std::vector<std::string> res(n);
    std::vector<std::function<void()>> bodies;
    auto mk = [](const std::vector<long long>& v) {
        E e{};
        for (unsigned i = 0; i < Dim; ++i) e[i] = (RamDomain)v[i];
        return e;
    };
    for (int i = 0; i < n; ++i) {
        bodies.push_back([&, i] {
            typename Trie<Dim>::op_context ctxt;
            for (auto& k : keys[i]) res[i] += (useCtx ? trie.insert(mk(k), ctxt) : trie.insert(mk(k))) ? "t" : "f";
        });
    }
    S.run(bodies);
    std::string out;
    for (int i = 0; i < n; ++i) out += "T" + std::to_string(i) + ":" + res[i] + " ";
    out += "; steps " + std::to_string(S.taken.size()) + (S.stuck ? " STUCK" : "") + " ; " + std::to_string(trie.size()) + " ; ";
    bool first = true;
    for (const auto& t : trie) {
        if (!first) out += " ";
        first = false;
        out += show<Dim>(t);
    }
    out += " ; ";
    for (int i = 0; i < n; ++i)
        for (auto& k : keys[i]) out += trie.contains(mk(k)) ? "t" : "f";
    out += " ; ";
    for (const auto& chunk : trie.partition(chunks)) {
        out += "{";
        first = true;
        for (const auto& t : chunk) {
            if (!first) out += " ";
            first = false;
            out += show<Dim>(t);
        }
        out += "}";
    }
    return out;
}

static std::string parLine(const std::string& line) {
    std::stringstream ss(line);
    std::string w;
    int dim, ctx, n, sw, chunks;
    unsigned long long seed;
    ss >> w >> dim >> ctx >> n >> seed >> sw >> chunks;
    std::vector<std::vector<std::vector<long long>>> keys;
    while (ss >> w) {
        if (w == "|") {
            keys.emplace_back();
        } else if (!keys.empty() && w.size() > 2) {
            keys.back().push_back(parseTuple(w.substr(2)));
            if ((int)keys.back().back().size() != dim) return "bad";
        }
    }
    if (!keys.empty() && keys.back().empty()) keys.pop_back();
    keys.resize(n);
    switch (dim) {
        case 1: return runPar<1>(ctx, n, seed, sw, chunks, keys);
        case 2: return runPar<2>(ctx, n, seed, sw, chunks, keys);
        case 3: return runPar<3>(ctx, n, seed, sw, chunks, keys);
        case 4: return runPar<4>(ctx, n, seed, sw, chunks, keys);
    }
    return "bad";
}

int main() {
    std::ios::sync_with_stdio(false);
    std::string line;
    while (std::getline(std::cin, line)) {
        if (line.compare(0, 4, "par ") == 0) {
            std::cout << parLine(line) << "\n" << std::flush;
            continue;
        }
        std::stringstream ss(line);
        int dim;
        std::string mode, w;
        if (!(ss >> dim >> mode)) {
            std::cout << "\n";
            continue;
        }
        std::vector<std::string> ops;
        while (ss >> w) ops.push_back(w);
        std::string r;
        switch (dim) {
            case 1: r = runHistory<1>(ops); break;
            case 2: r = runHistory<2>(ops); break;
            case 3: r = runHistory<3>(ops); break;
            case 4: r = runHistory<4>(ops); break;
            default: r = "bad";
        }
        std::cout << r << "\n" << std::flush;
    }
    return 0;
}
