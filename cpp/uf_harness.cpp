// C29: runs union / sameSet / find scripts against the REAL souffle::DisjointSet under the deterministic
// scheduler (hook H3: a scheduling point before every atomic load / CAS).
// stdin per case:  <nnodes> | <script 0> | ... | <script k-1> | random <seed> <switch%>   or   ... | <tid> <tid> ...
// script tokens: u:x:y  s:x:y  f:x
// stdout per case: sched <tids> ; resp <tid>:<kind>:<value> ... ; mem <parent>:<rank> ... [; STUCK]
#include <atomic>
#include <iostream>
#include <sstream>
#include <string>
#include <vector>
#include "souffle/datastructure/UnionFind.h"
#include "vsched.h"

using souffle::DisjointSet;

static std::vector<std::string> split(const std::string& s, char c) {
    std::vector<std::string> r;
    std::stringstream ss(s);
    std::string x;
    while (std::getline(ss, x, c)) r.push_back(x);
    return r;
}

int main() {
    std::string line;
    while (std::getline(std::cin, line)) {
        auto parts = split(line, '|');
        int n = std::stoi(parts[0]);
        int k = (int)parts.size() - 2;
        std::vector<std::vector<std::string>> scripts(k);
        for (int i = 0; i < k; ++i) {
            std::stringstream ss(parts[1 + i]);
            std::string tok;
            while (ss >> tok) scripts[i].push_back(tok);
        }
        vsched::Scheduler S;
        S.maxSteps = 20000;
        {
            std::stringstream ss(parts[1 + k]);
            std::string w;
            ss >> w;
            if (w == "random") {
                uint64_t seed;
                int sw;
                ss >> seed >> sw;
                S.rng = vsched::Rng(seed);
                S.switchPercent = sw;
            } else if (!w.empty()) {
                S.replay.push_back(std::stoi(w));
                int t;
                while (ss >> t) S.replay.push_back(t);
            }
        }
        DisjointSet ds;
        for (int i = 0; i < n; ++i) ds.makeNode();
        std::vector<std::string> log;
        std::vector<std::function<void()>> bodies;
        for (int t = 0; t < k; ++t) {
            bodies.push_back([&, t] {
                for (const std::string& op : scripts[t]) {
                    auto f = split(op, ':');
                    if (f[0] == "u") {
                        ds.unionNodes(std::stoull(f[1]), std::stoull(f[2]));
                        log.push_back(std::to_string(t) + ":u:-");
                    } else if (f[0] == "s") {
                        bool b = ds.sameSet(std::stoull(f[1]), std::stoull(f[2]));
                        log.push_back(std::to_string(t) + ":s:" + (b ? "t" : "f"));
                    } else {
                        auto r = ds.findNode(std::stoull(f[1]));
                        log.push_back(std::to_string(t) + ":f:" + std::to_string(r));
                    }
                }
            });
        }
        S.run(bodies);
        std::cout << "sched";
        for (auto& e : S.taken) std::cout << " " << e.tid;
        std::cout << " ; resp";
        for (auto& r : log) std::cout << " " << r;
        std::cout << " ; mem";
        for (int i = 0; i < n; ++i) {
            souffle::block_t b = ds.get(i).load();
            std::cout << " " << DisjointSet::b2p(b) << ":" << (unsigned)DisjointSet::b2r(b);
        }
        if (S.stuck) std::cout << " ; STUCK";
        std::cout << "\n";
        std::cout.flush();
    }
    return 0;
}
