// C28 (concurrent part): 1-8 OpenMP threads insert random pairs into one REAL EquivalenceRelation; at quiescence the
// structure must hold exactly the closure of all inserted pairs (contains, size = sum of squared class sizes, full
// iteration lists each pair once). stdin per case: <threads> <seed> <elements> <inserts per thread>; stdout: ok .. | BAD ..
#include <algorithm>
#include <cstdint>
#include <iostream>
#include <map>
#include <set>
#include <vector>
#include <omp.h>
#include "souffle/RamTypes.h"
#include "souffle/SouffleInterface.h"
#include "souffle/datastructure/EquivalenceRelation.h"
using namespace souffle;
using T = Tuple<RamDomain, 2>;
static uint64_t mix(uint64_t& s) {
    s += 0x9E3779B97F4A7C15ULL;
    uint64_t z = s;
    z = (z ^ (z >> 30)) * 0xBF58476D1CE4E5B9ULL;
    z = (z ^ (z >> 27)) * 0x94D049BB133111EBULL;
    return z ^ (z >> 31);
}
int main() {
    int n, nel, ops;
    uint64_t seed;
    while (std::cin >> n >> seed >> nel >> ops) {
        std::vector<RamDomain> pool;
        for (int i = 0; i < nel; ++i) pool.push_back(i % 7 == 0 ? (RamDomain)(i % 2 ? 2147483647 - i : -2147483647 - 1 + i) : (RamDomain)(i * 37 - 500));
        EquivalenceRelation<T> er;
        std::vector<std::vector<std::pair<RamDomain, RamDomain>>> log(n);
        omp_set_num_threads(n);
#pragma omp parallel
        {
            int t = omp_get_thread_num();
            uint64_t s = seed * 7919ULL + t;
            for (int k = 0; k < ops; ++k) {
                RamDomain a = pool[mix(s) % nel], b = pool[mix(s) % nel];
                er.insert(a, b);
                log[t].push_back({a, b});
            }
        }
        std::map<RamDomain, RamDomain> par;
        std::function<RamDomain(RamDomain)> find = [&](RamDomain x) {
            if (!par.count(x)) par[x] = x;
            while (par[x] != x) x = par[x];
            return x;
        };
        for (auto& l : log)
            for (auto& p : l) {
                RamDomain ra = find(p.first), rb = find(p.second);
                if (ra != rb) par[ra] = rb;
            }
        std::map<RamDomain, std::vector<RamDomain>> cls;
        for (auto& kv : par) cls[find(kv.first)].push_back(kv.first);
        std::size_t expect = 0;
        for (auto& c : cls) expect += c.second.size() * c.second.size();
        std::string bad;
        if (er.size() != expect) bad = "size " + std::to_string(er.size()) + " != sum of squared class sizes " + std::to_string(expect);
        std::set<std::pair<RamDomain, RamDomain>> seen;
        std::size_t count = 0;
        for (auto it = er.begin(); it != er.end(); ++it) {
            ++count;
            auto p = std::make_pair((*it)[0], (*it)[1]);
            if (!seen.insert(p).second) bad = "iteration lists a pair twice";
            if (!par.count(p.first) || !par.count(p.second) || find(p.first) != find(p.second)) bad = "iteration lists a pair outside the closure";
        }
        if (count != expect) bad = "iteration lists " + std::to_string(count) + " pairs, closure has " + std::to_string(expect);
        for (auto& a : par)
            for (auto& b : par)
                if (er.contains(a.first, b.first) != (find(a.first) == find(b.first))) bad = "contains disagrees with the closure";
        std::cout << (bad.empty() ? "ok pairs=" + std::to_string(expect) + " classes=" + std::to_string(cls.size()) : "BAD " + bad) << "\n";
        std::cout.flush();
    }
    return 0;
}
