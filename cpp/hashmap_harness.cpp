// C31: runs get() histories against the REAL ConcurrentInsertOnlyHashMap (with MutexConcurrentLanes) under the
// deterministic scheduler (hook H4).
// stdin per case:  <nbuckets0> <hashmod> | <keys of thread 0> | ... | random <seed> <switch%>   or   ... | <tid> <tid> ...
// stdout: sched <tids> ; resp <tid>:<key>:<node#>:<t|f> ... ; buckets <count> ; chains <b>:<key>,<key>.. ... ; size <n> [; STUCK]
//   node# numbers the distinct node addresses in order of first appearance in the responses.
#include <atomic>
#include <cstdint>
#include <iostream>
#include <map>
#include <sstream>
#include <string>
#include <vector>
#define private public
#include "souffle/datastructure/ConcurrentInsertOnlyHashMap.h"
#undef private
#include "vsched.h"

static uint64_t HASHMOD = 0;
struct Hash {
    std::size_t operator()(const uint64_t& k) const {
        return HASHMOD ? k % HASHMOD : k;
    }
};
using Map = souffle::ConcurrentInsertOnlyHashMap<souffle::MutexConcurrentLanes, uint64_t, uint64_t, Hash>;

static std::vector<std::string> split(const std::string& s, char c) {
    std::vector<std::string> r;
    std::stringstream ss(s);
    std::string x;
    while (std::getline(ss, x, c)) r.push_back(x);
    return r;
}

int main() {
    std::string line;
    while (std::getline(std::cin, line)) {
        auto parts = split(line, '|');
        std::stringstream hs(parts[0]);
        std::size_t nb0;
        hs >> nb0 >> HASHMOD;
        int k = (int)parts.size() - 2;
        std::vector<std::vector<uint64_t>> keys(k);
        for (int i = 0; i < k; ++i) {
            std::stringstream ss(parts[1 + i]);
            uint64_t x;
            while (ss >> x) keys[i].push_back(x);
        }
        vsched::Scheduler S;
        S.maxSteps = 50000;
        {
            std::stringstream ss(parts[1 + k]);
            std::string w;
            ss >> w;
            if (w == "random") {
                uint64_t seed;
                int sw;
                ss >> seed >> sw;
                S.rng = vsched::Rng(seed);
                S.switchPercent = sw;
            } else if (!w.empty()) {
                S.replay.push_back(std::stoi(w));
                int t;
                while (ss >> t) S.replay.push_back(t);
            }
        }
        Map map(k, nb0);
        struct R {
            int tid;
            uint64_t key;
            const void* node;
            bool ins;
        };
        std::vector<R> log;
        std::vector<std::function<void()>> bodies;
        for (int t = 0; t < k; ++t) {
            bodies.push_back([&, t] {
                for (uint64_t key : keys[t]) {
                    auto n = map.node(key * 10);
                    auto res = map.get((std::size_t)t, n, key);
                    log.push_back({t, key, (const void*)res.first, res.second});
                }
            });
        }
        S.run(bodies);
        std::cout << "sched";
        for (auto& e : S.taken) std::cout << " " << e.tid;
        std::cout << " ; resp";
        std::map<const void*, int> ids;
        for (auto& r : log) {
            if (!ids.count(r.node)) ids[r.node] = (int)ids.size();
            std::cout << " " << r.tid << ":" << r.key << ":" << ids[r.node] << ":" << (r.ins ? "t" : "f");
        }
        std::cout << " ; buckets " << map.BucketCount << " ; chains";
        for (std::size_t b = 0; b < map.BucketCount; ++b) {
            auto* L = map.Buckets[b].load();
            if (!L) continue;
            std::cout << " " << b << ":";
            bool first = true;
            int guard = 0;
            while (L && guard++ < 100000) {
                std::cout << (first ? "" : ",") << L->Value.first;
                first = false;
                L = L->Next;
            }
        }
        std::cout << " ; size " << map.Size.load();
        if (S.stuck) std::cout << " ; STUCK";
        std::cout << "\n";
        std::cout.flush();
    }
    return 0;
}
