// C30: runs client scripts against the REAL OptimisticReadWriteLock under the deterministic scheduler.
// stdin, one case per line:  <n> | <script 0> | ... | <script n-1> | random <seed> <switch%>   or   ... | <tid> <tid> ...
// script tokens: R  W+ W-  T+ T-  U+ U-   (see coq/theories/LockDefs.v)
// stdout per case:  sched <tids...> ; final <version> ; <tid>:<method>:<resp> ...  [; STUCK]
#include <atomic>
#include <cstring>
#include <iostream>
#include <sstream>
#include <string>
#include <vector>
#include "souffle/utility/ParallelUtil.h"
#include "vsched.h"

using Lock = souffle::OptimisticReadWriteLock;
// The version counter and the lease value are private (class default access): read them through the object
// representation. Both classes consist of exactly one int-sized member; checked here.
static_assert(sizeof(Lock) == sizeof(std::atomic<int>), "OptimisticReadWriteLock layout changed");
static_assert(sizeof(Lock::Lease) == sizeof(int), "Lease layout changed");
static int versionOf(Lock& l) {
    return reinterpret_cast<std::atomic<int>*>(&l)->load();
}
static int leaseOf(const Lock::Lease& l) {
    int v;
    std::memcpy(&v, &l, sizeof(int));
    return v;
}

static std::vector<std::string> split(const std::string& s, char c) {
    std::vector<std::string> r;
    std::stringstream ss(s);
    std::string x;
    while (std::getline(ss, x, c)) r.push_back(x);
    return r;
}

int main() {
    std::string line;
    while (std::getline(std::cin, line)) {
        auto parts = split(line, '|');
        // first field: <nthreads> or <nthreads>@<initial version> (the version counter is set through the object representation)
        int n = std::stoi(parts[0]);
        long long v0 = 0;
        if (parts[0].find('@') != std::string::npos) v0 = std::stoll(parts[0].substr(parts[0].find('@') + 1));
        std::vector<std::vector<std::string>> scripts(n);
        for (int i = 0; i < n; ++i) {
            std::stringstream ss(parts[1 + i]);
            std::string tok;
            while (ss >> tok) scripts[i].push_back(tok);
        }
        vsched::Scheduler S;
        {
            std::stringstream ss(parts[1 + n]);
            std::string w;
            ss >> w;
            if (w == "random") {
                uint64_t seed;
                int sw;
                ss >> seed >> sw;
                S.rng = vsched::Rng(seed);
                S.switchPercent = sw;
            } else if (!w.empty()) {
                S.replay.push_back(std::stoi(w));
                int t;
                while (ss >> t) S.replay.push_back(t);
            }
        }
        Lock lock;
        reinterpret_cast<std::atomic<int>*>(&lock)->store((int)v0);
        std::vector<std::string> log;  // appended only by the single running thread
        std::vector<std::function<void()>> bodies;
        for (int t = 0; t < n; ++t) {
            bodies.push_back([&, t] {
                auto say = [&](const char* m, const std::string& r) { log.push_back(std::to_string(t) + ":" + m + ":" + r); };
                for (const std::string& b : scripts[t]) {
                    bool commit = b.size() > 1 && b[1] == '+';
                    auto finish = [&] {
                        if (commit) {
                            lock.end_write();
                            say("ew", "u");
                        } else {
                            lock.abort_write();
                            say("aw", "u");
                        }
                    };
                    if (b[0] == 'R') {
                        auto l = lock.start_read();
                        say("sr", std::to_string(leaseOf(l)));
                        say("va", lock.validate(l) ? "t" : "f");
                        say("er", lock.end_read(l) ? "t" : "f");
                    } else if (b[0] == 'W') {
                        lock.start_write();
                        say("sw", "u");
                        finish();
                    } else if (b[0] == 'T') {
                        bool ok = lock.try_start_write();
                        say("tsw", ok ? "t" : "f");
                        if (ok) finish();
                    } else if (b[0] == 'U') {
                        auto l = lock.start_read();
                        say("sr", std::to_string(leaseOf(l)));
                        bool ok = lock.try_upgrade_to_write(l);
                        say("tup", ok ? "t" : "f");
                        if (ok) finish();
                    }
                }
            });
        }
        S.run(bodies);
        std::cout << "sched";
        for (auto& e : S.taken) std::cout << " " << e.tid;
        std::cout << " ; final " << versionOf(lock) << " ;";
        for (auto& r : log) std::cout << " " << r;
        if (S.stuck) std::cout << " ; STUCK";
        std::cout << "\n";
        std::cout.flush();
    }
    return 0;
}
