// C31 (API level): concurrent symbol encodings and record packings on the REAL SymbolTableImpl / RecordTable with
// OpenMP threads as lanes (optionally perturbed through SOUFFLE_VERIF_PERTURB, hook H6).
// stdin per case: <nthreads> <seed> <ndistinct> <ops per thread>
// stdout per case: "ok symbols=<n> records=<n> growths>=<g>" or "BAD <what>"
#include <algorithm>
#include <cstdint>
#include <iostream>
#include <map>
#include <set>
#include <sstream>
#include <string>
#include <vector>
#include <omp.h>
#include "souffle/RamTypes.h"
#include "souffle/datastructure/RecordTableImpl.h"
#include "souffle/datastructure/SymbolTableImpl.h"

using namespace souffle;

static uint64_t mix(uint64_t& s) {
    s += 0x9E3779B97F4A7C15ULL;
    uint64_t z = s;
    z = (z ^ (z >> 30)) * 0xBF58476D1CE4E5B9ULL;
    z = (z ^ (z >> 27)) * 0x94D049BB133111EBULL;
    return z ^ (z >> 31);
}

int main() {
    int n, ndist, ops;
    uint64_t seed;
    while (std::cin >> n >> seed >> ndist >> ops) {
        std::vector<std::string> pool;
        for (int i = 0; i < ndist; ++i) pool.push_back("s" + std::to_string(i * 7919 % 100003) + std::string(i % 5, 'x'));
        SymbolTableImpl st;
        st.setNumLanes(n);
        SpecializedRecordTable<0, 1, 2, 3> rt;
        rt.setNumLanes(n);
        std::vector<std::vector<std::pair<int, RamDomain>>> symLog(n);                    // (pool index, reference)
        std::vector<std::vector<std::pair<std::vector<RamDomain>, RamDomain>>> recLog(n);  // (tuple, reference)
        omp_set_num_threads(n);
#pragma omp parallel
        {
            int t = omp_get_thread_num();
            uint64_t s = seed * 1000003ULL + t;
            for (int k = 0; k < ops; ++k) {
                int idx = (int)(mix(s) % ndist);
                RamDomain r = st.encode(pool[idx]);
                symLog[t].push_back({idx, r});
                std::size_t ar = 1 + mix(s) % 3;
                std::vector<RamDomain> tup(ar);
                for (auto& x : tup) x = (RamDomain)(mix(s) % (ndist / 2 + 1));
                RamDomain rr = rt.pack(tup.data(), ar);
                recLog[t].push_back({tup, rr});
            }
        }
        std::string bad;
        std::map<int, RamDomain> symRef;
        std::map<RamDomain, int> refSym;
        for (auto& l : symLog)
            for (auto& [idx, r] : l) {
                if (symRef.count(idx) && symRef[idx] != r) bad = "equal symbols got different references";
                if (refSym.count(r) && refSym[r] != idx) bad = "different symbols got the same reference";
                symRef[idx] = r;
                refSym[r] = idx;
                if (st.decode(r) != pool[idx]) bad = "decode does not return the encoded symbol";
            }
        std::map<std::string, int> seen;
        std::size_t count = 0;
        for (auto it = st.begin(); it != st.end(); ++it) {
            ++count;
            if (++seen[it->first] > 1) bad = "iteration lists a symbol twice";
            if (st.decode((RamDomain)it->second) != it->first) bad = "iteration pairs a symbol with a wrong index";
        }
        if (count != symRef.size()) bad = "iteration lists " + std::to_string(count) + " symbols, " + std::to_string(symRef.size()) + " were interned";
        std::map<std::vector<RamDomain>, RamDomain> recRef;
        std::map<std::pair<std::size_t, RamDomain>, std::vector<RamDomain>> refRec;
        for (auto& l : recLog)
            for (auto& [tup, r] : l) {
                if (r == 0) bad = "a real record was given the nil reference";
                if (recRef.count(tup) && recRef[tup] != r) bad = "equal records got different references";
                auto key = std::make_pair(tup.size(), r);
                if (refRec.count(key) && refRec[key] != tup) bad = "different records of one arity got the same reference";
                recRef[tup] = r;
                refRec[key] = tup;
                const RamDomain* u = rt.unpack(r, tup.size());
                if (!std::equal(tup.begin(), tup.end(), u)) bad = "unpack does not return the packed record";
            }
        if (bad.empty())
            std::cout << "ok symbols=" << symRef.size() << " records=" << recRef.size() << "\n";
        else
            std::cout << "BAD " << bad << "\n";
        std::cout.flush();
    }
    return 0;
}
